#!/bin/bash
# tools/seedtest.sh <mutant-dir> [check-ids...]
# Confirms a seeded property-breaking change (patch.diff + zz_demo*_test.go + DEMO_PKG + meta.json):
#   1. in a scratch worktree of /repo: the patched tree compiles and the repository's suite passes,
#      the demonstration fails with the patch and passes without it;
#   2. applies the patch to /repo, runs the quick check of the property (or the ids given),
#      and restores /repo straight afterwards.
# Prints one line per step and writes <mutant-dir>/result.json.
set -u
export GOFLAGS=-mod=mod GOPROXY=off GOSUMDB=off GOTOOLCHAIN=local
D=$(cd "$1" && pwd); shift
PROP=$(python3 -c "import json,sys;print(json.load(open('$D/meta.json'))['property'])")
IDS="${*:-$PROP}"
SW=/tmp/seedtest-$$
trap 'git -C /repo worktree remove --force $SW >/dev/null 2>&1; rm -rf $SW' EXIT
git -C /repo worktree add -q --detach $SW HEAD || exit 2
PKG=$(cat "$D/DEMO_PKG" 2>/dev/null | tr -d ' \n')
DEMO=$(ls "$D"/zz_demo*_test.go | head -1)
RUNNAME=$(grep -o 'func TestDemo[A-Za-z0-9_]*' "$DEMO" | head -1 | sed 's/func //')
res() { echo "$1=$2"; eval "R_$1=$2"; }
( cd $SW && git apply "$D/patch.diff" ) || { echo "patch does not apply"; exit 2; }
( cd $SW && go build ./... && go test -vet=off -count=1 ./... >/tmp/seedtest-suite-$$.log 2>&1 ) && res suite_with_patch pass || res suite_with_patch FAIL
cp "$DEMO" "$SW/$PKG/"
( cd $SW && go test -vet=off -count=1 -run "^${RUNNAME}\$" ./$PKG >/tmp/seedtest-demo1-$$.log 2>&1 ) && res demo_with_patch pass || res demo_with_patch fail
( cd $SW && git apply -R "$D/patch.diff" )
( cd $SW && go test -vet=off -count=1 -run "^${RUNNAME}\$" ./$PKG >/tmp/seedtest-demo2-$$.log 2>&1 ) && res demo_without_patch pass || res demo_without_patch fail
# now the checks, against /repo itself
if [ -n "$(git -C /repo status --porcelain)" ]; then echo "/repo is dirty; refusing"; exit 2; fi
git -C /repo apply "$D/patch.diff" || exit 2
DET=""
for id in $IDS; do
  out=$(cd /verif && ./run.sh $id quick 2>&1); code=$?
  sig=$(echo "$out" | grep -A1 '^VIOLATION' | grep signature | head -3 | sed 's/^ *//' | tr '\n' ';')
  echo "check $id exit=$code $sig"
  DET="$DET{\"check\":\"$id\",\"exit\":$code,\"signatures\":\"$(echo $sig | sed 's/"/\\"/g')\"},"
done
git -C /repo checkout -- . ; git -C /repo clean -fdq
python3 - <<PY
import json
json.dump({"suite_with_patch":"$R_suite_with_patch","demo_with_patch":"$R_demo_with_patch","demo_without_patch":"$R_demo_without_patch","checks":json.loads('[${DET%,}]')}, open("$D/result.json","w"), indent=1)
PY
rm -f /tmp/seedtest-*-$$.log
