#!/bin/bash
# tools/runall.sh [quick|thorough] : runs every registered check on /repo as it is and prints one line each.
cd /verif
tier=${1:-quick}
rc=0
for i in $(seq -w 1 20); do
  s=$(date +%s)
  out=$(./run.sh C$i $tier 2>&1); code=$?
  e=$(( $(date +%s) - s ))
  line=$(echo "$out" | grep "^C$i $tier:" | head -1)
  echo "exit=$code ${e}s $line"
  echo "$out" | grep "^VIOLATION\|^KNOWN-FINDING\|incomplete:" | cut -c1-200
  [ $code -ne 0 ] && rc=1
done
exit $rc
