#!/usr/bin/env python3
"""Regenerates the table of DESIGN.md section 13 from /verif/seeded/*/{meta,result,result-first-run}.json."""
import json, glob, os, re
rows = []
for d in sorted(glob.glob('/verif/seeded/*/')):
    name = os.path.basename(d[:-1])
    try:
        m = json.load(open(d + 'meta.json')); r = json.load(open(d + 'result.json'))
    except Exception:
        continue
    first = None
    if os.path.exists(d + 'result-first-run.json'):
        first = json.load(open(d + 'result-first-run.json'))
    def det(res):
        return ', '.join('%s %s' % (c['check'], 'caught (%s)' % '; '.join(sorted(set(re.findall(r'signature=([^ ;]+)', c['signatures']))))[:70] if c['exit'] == 1 else 'MISSED') for c in res['checks'])
    files = ','.join(os.path.basename(f) for f in m.get('files', []))
    trig = (m.get('needs_to_manifest', '') or '').replace('\n', ' ').replace('|', '/')[:150]
    note = ''
    if first and any(c['exit'] != 1 for c in first['checks']) and all(c['exit'] == 1 for c in r['checks']):
        note = 'missed at first; caught after strengthening'
    ok = r['suite_with_patch'] == 'pass' and r['demo_with_patch'] == 'fail' and r['demo_without_patch'] == 'pass'
    rows.append('| %s | %s | %s | %s | %s | %s |' % (name, files, trig, 'yes' if ok else 'NO', det(r), note))
hdr = '| id | file | needs, in order to manifest | confirmed (suite passes, demo fails/passes) | quick check on the changed tree | note |\n|---|---|---|---|---|---|\n'
table = hdr + '\n'.join(rows) + '\n'
p = '/verif/DESIGN.md'
s = open(p).read()
a, b = '<!-- SEEDTABLE-BEGIN -->', '<!-- SEEDTABLE-END -->'
if a in s:
    s = s[:s.index(a) + len(a)] + '\n' + table + s[s.index(b):]
    open(p, 'w').write(s)
print(len(rows), 'rows')
