#!/bin/bash
# tools/selftest.sh : re-introduces each repaired defect (reverse-applies its fix: commit onto /repo's
# working tree), runs the quick check of the property it was found by, and restores /repo.
# Every line must say DETECTED; finally the evidence of the touched checks is refreshed on the clean tree.
set -u
cd /verif
if [ -n "$(git -C /repo status --porcelain)" ]; then echo "/repo is dirty; refusing"; exit 2; fi
fail=0; touched=""
grep '^fixed:' KNOWN_FINDINGS.txt | while read -r _ prop commit rest; do
  id=${prop#property=}
  git -C /repo show "$commit" -- . | git -C /repo apply -R || { echo "$id $commit: cannot reverse-apply"; continue; }
  out=$(./run.sh "$id" quick 2>&1); code=$?
  git -C /repo checkout -- .
  sig=$(echo "$out" | grep 'signature=' | head -2 | sed 's/^ *//;s/ cases.*//' | tr '\n' ' ')
  if [ $code -eq 1 ]; then echo "DETECTED  $id $commit $sig"; else echo "MISSED    $id $commit exit=$code"; fi
done
