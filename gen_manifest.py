#!/usr/bin/env python3
"""Regenerates MANIFEST.json from the table below (single source of truth for the registered checks)."""
import json, os
HERE = os.path.dirname(os.path.abspath(__file__))
props = [json.loads(l) for l in open(os.path.join(HERE, 'properties.jsonl'))]
# id -> (technique, level text, level note, design ref)
CHECKS = {
 'C13': ('explicit-state BFS over Add/Combine histories on the real StreamStats (state = reflection-read field bits + model multiset), exact big.Rat oracle in every state',
         'All histories of Add/Combine up to the stated depth on 2-6 accumulators, every split of every short stream with every merge order, and every split point of structured long streams with offset 1e9 are executed on the real code and compared with exact batch statistics.',
         'value alphabet {-2,0,3,1e9+1}; float tolerances are explicit forward-error bounds recorded in the evidence', '4/C13'),
 'C01': ('bounded-exhaustive enumeration of every (tie vector, allocation) class on the real MannWhitneyUTest vs an exact big.Int permutation-distribution model (model validated against literal subset enumeration)',
         'Every pair of samples up to order/relabelling with n1+n2<=10 (thorough 13), 3 arrangements x 3 alternatives, tied classes also written as zeros of both signs, overlapping windows of one series as aliased arguments (n1+n2<=12), plus complete structured families to 50+50 untied / 25+25 tied, is executed and compared with pair-count U and exact tails. The two-sided shortcut defect is a listed known finding matched by signature.',
         'default exact-method limits; tolerance 1e-9; values are rank indices (the test is rank based; invariance is decided by C03)', '4/C01'),
 'C02': ('bounded-exhaustive enumeration of every (N1,N2,T) on the real UDist vs exact big.Int counts; reference model replay-validated against definitional subset enumeration',
         'Every (N1,N2,T) with N1+N2<=10 (thorough 14) and complete K=2/K=3/uniform/untied families up to 50+50 are evaluated on the whole half-integer grid, one ulp either side of every grid point, off-grid points and |u| up to MaxFloat64 against exact counts: PMF, CDF, mass, monotonicity, mirror law, Bounds, Step; for N1+N2<=12 also after the caller rewrote the tie slice in place and with distributions of neighbouring sizes queried alternately.',
         'PMF constrained only at attainable points; tolerance 1e-9, monotone slack 1e-11', '4/C02'),
 'C03': ('bounded-exhaustive enumeration of sample classes x 25 configurations of the two limit variables on the real MannWhitneyUTest; all permutations; monotone maps; swap law; error cases; normal-branch formula oracle',
         'Every class with n1+n2<=8 (thorough 10) under all 25 limit configurations (same data through exact and normal method), every permutation for n1+n2<=6 (8), six increasing maps, swap law, argument snapshots including spare capacity, zeros of both signs, every pair of overlapping windows as aliased arguments, calls of other sizes in between, both samples negated in place, every error combination, and a complete size family to 600x600.',
         'normal-branch oracle: exact rational variance + math.Erfc (the normal CDF itself is C05\'s subject); range slack 1e-12', '4/C03'),
 'C06': ('bounded-exhaustive enumeration of every (N,K,Draws) / (N,P) and every k against exact big.Rat / 600-bit references',
         'Every hypergeometric (N,K,Draws) with N<=40 (thorough 80), every binomial N<=70 (100) on ~310 values of P (i/200, geometric ladders 10^(-j/4) to 0 and 1, non-round values) and the complete family N in {100,250,500,999,1000}, at every integer and half-integer k from below to above the support.',
         'tolerance 1e-10; binomial reference in 600-bit big.Float on the exact value of the float P, cross-checked against big.Rat for N<=12', '4/C06'),
 'C08': ('bounded-exhaustive lattice enumeration (truly exhaustive for Choose/Lchoose n<=1000) against closed-form 640-bit references and gonum/mathext',
         'BetaInc on a 23x23 (thorough 32x32) parameter lattice x ~82 arguments including both sides of the branch switch-over, GammaInc/GammaIncComp on 13 (23) values of a x ~300 arguments (a-relative, absolute k/4 to 40, a+j*sqrt(a)) including x=a+1 +-2 ulp, all 503k (n,k) pairs for Choose/Lchoose, Beta on the lattice, Sign on 11 values.',
         'gonum/mathext (cephes lineage) is the oracle for non-integer parameters; its agreement with the closed forms is measured on every integer point of the lattice', '4/C08'),
 'C18': ('bounded-exhaustive enumeration of all small digraphs/multigraphs, subgraph requests, graph pairs and strings + explicit-state BFS over NodeMarks histories (state = model set + reflection-read storage length), definitional references',
         'All digraphs on <=4 (5) nodes x roots, all multigraphs on <=3 nodes with lists <=3, structured graphs up to 100000 nodes crossing every growth boundary, every Keep/Remove request on every 3-node digraph, every pair of small multigraphs, every string of length <=5 over the escaping alphabet, and all Mark/Unmark histories to depth 4 (thorough: the complete reachable state space) from both initial states.',
         'big graphs use an independent Kosaraju partition as SCC reference (validated against mutual reachability on every small graph); set-valued lists compared as sets', '4/C18'),
 'C19': ('bounded-exhaustive enumeration of all small rooted digraphs/multigraphs on the real IDom/Dom/DomFrontier against dominance decided by node deletion and reachability',
         'All digraphs on <=4 (5) nodes x every root, all multigraphs on <=3 nodes with lists <=3, and complete structured families up to 200 nodes (irreducible ladders, complete graphs, circulant multigraphs, unreachable feeders into reachable joins). Panics are violations; non-termination is caught by a 90 s watchdog.',
         'root membership in frontiers compared only when the root has 0 or >=2 incoming edges; frontiers of unreachable nodes unconstrained; non-termination observed, not proved', '4/C19'),
 'C04': ('bounded-exhaustive multiset-pair enumeration of the real t-tests and MeanCI against exact rational statistics and closed-form/series/gonum Student-t references',
         'Every pair of multisets of sizes {2,3,4}^2 (thorough to 5) over a 6-value alphabet for the pooled and Welch tests, every pair of equal-length sequences (length<=3, thorough 4) for the paired test, every multiset n<=5 x 4 mu0 for the one-sample test, all alternatives, swap/shift/scale laws, every small error combination, a structured family to n=40 with offsets to 1e6, MeanCI on 11 confidence levels.',
         'T tolerance is an explicit forward-error bound scaled by the condition number of the data; P 1e-9 plus the propagated T tolerance', '4/C04'),
 'C05': ('bounded-exhaustive lattice enumeration of NormalDist/TDist/DeltaDist against erfc series in big.Float, the closed-form/Maclaurin-series t CDF and gonum; per-cell Gauss-Legendre integrals',
         '25 (thorough 81) normal parameter sets x 641 arguments over +-40 sigma x 277 p down to 1e-300; 13 (23) t distributions x ~750 arguments including 10^(-j/4) down to 1e-12 and +-1e8; accuracy, range, monotonicity, symmetry, limits, PDF integral per cell, InvCDF round trip, moments, Bounds, Rand against a twin source; DeltaDist step/quantile.',
         'between lattice points only monotonicity at lattice resolution is decided; round trip asserted where the quantile is representable (see DESIGN 3a)', '4/C05'),
 'C09': ('bounded-exhaustive sequence x weight-vector enumeration + explicit-state BFS over Sample histories (Sort/Copy/mark/reverse/rotate) with exact big.Rat oracle',
         'Every sequence of length<=5 (6) over 5 values x 4 offsets, every weight vector over {0,1,2,3} for length<=4 (5), GeoMean on powers of two plus the NaN rule, structured n to 200, all Sample histories (Sort/Copy/mark/reverse/rotate/rewrite-in-place) to depth 4 (5) from every initial sample of length<=3, vec helpers on a small complete lattice incl. results retained across later calls.',
         'weighted Variance/StdDev/MeanCI are documented panics (not called); weighted GeoMean compared on positive data only', '4/C09'),
 'C10': ('bounded-exhaustive sequence x q-lattice enumeration of Sample.Quantile against an exact rational Hyndman-Fan type 8 model',
         'Every sequence of length 1..6 (7) over {-1,0,2,7}, structured n in {7..12,50,199,200}, q on -0.5..1.5 step 1/48 plus every break point +-1 ulp, both Sorted settings, bitwise order independence, unmodified inputs incl. spare capacity, weighted quantile with q on every cumulative weight +-1 ulp; queries on unrelated samples in between, the sample rewritten in place and queried again, empty samples with every flag combination.',
         'tolerance 4 eps (n+1)(range+max|x|); weighted ties grouped', '4/C10'),
 'C11': ('bounded-exhaustive (n,q,c) enumeration of QuantileCI against exact big.Rat binomial masses (n<=30) and a 200-bit normal construction with an independent normal quantile (n>30)',
         'n=1..30 and 10 (16) larger n x 50 (90) q x ~210+8(n+1) confidence levels including every cumulative mass of the greedy accumulation +-1 ulp and +-3e-12..5e-10, levels up to the last float before 1, calls for other n in between; structure, exact Confidence, >=c, mode, minimality, nesting, Ambiguous law; SampleCI on every permutation of samples of size<=5.',
         'c<=0 outside the domain (statement self-inconsistent there); half-integer ambiguity zone 1e-7 for n>30', '4/C11'),
 'C14': ('bounded-exhaustive edge-alphabet enumeration + explicit-state BFS over Add histories (state = counter vector) with HistogramQuantile evaluated for every rank in every state',
         'LinearHist nbins 1..5 (50) x 5 ranges and 108 LogHist shapes: single Add of every edge +-2 ulp, mid-points, 16 positions in the strip below the first edge, far values; all Add histories to depth 5 (6) over a 7-value alphabet; 500-Add structured streams; every ordered pair of small shapes used alternately; BinToValue monotone and interpolating.',
         'rank convention (0- or 1-based) left open by the statement: either accepted consistently per state; 4-ulp edge ambiguity (statement)', '4/C14'),
 'C12': ('bounded-exhaustive sample x kernel x bandwidth x boundary-configuration enumeration of the real KDE on an argument lattice against independently evaluated, fully folded kernel sums',
         'Every multiset of size 1..3 over 4 values plus structured samples of 10/40 values, weighted and not, as given and ascending with Sorted set, 3 kernels, 4 bandwidths, 16 boundary configurations (none, lower, upper, both; touching/0.5h/10h), ~150-400 arguments each including every kink and its images +-1 ulp: PDF/CDF vs formula, monotone, limits, zero outside, per-cell integral = CDF difference, Bounds mass, lazy Scott bandwidth, Scott/Silverman formulas.',
         'needle-thin doubly bounded supports (< h/50) and a delta kernel with an upper boundary one ulp above a sample are outside the explored domain (see DESIGN 3a)', '4/C12'),
 'C15': ('bounded-exhaustive design enumeration of LinearLeastSquares/PolynomialRegression/LOESS against exact big.Rat normal-equation solutions of the float64 design matrix',
         'Every subset of size 3..6 (8) of an 8-point lattice x2 scalings + n=40, 7 generating polynomials + a table, degrees 0..6, 8 other bases (single terms, no constant, constants other than 1), weighted/unweighted, ys rewritten in place between fits: parameters vs exact optimum, backward-error orthogonality, no-descent perturbations, F vs coefficients; LOESS on every subset of size 4..6 (7), degrees 0..2, every window size, every permutation for n<=5 (6): exact tricube local fit, locality, order independence, unmodified inputs.',
         'designs with exact Gram condition number > 1e8 are counted and skipped ("well-conditioned" decided by the reference)', '4/C15'),
 'C16': ('bounded-exhaustive domain x argument x clamp-configuration enumeration of Linear/Log/QQ against exact rational and 320-bit logarithm references',
         'All 169 (529) ordered (Min,Max) pairs over signed magnitudes 1e-12..1e12 and 0, ~27 arguments inside and to 100 widths outside, 8 y values, clamp off/on/off/on transitions, every scale built in several ways (literal with 4-5 bases; NewLog/Nice/use on another domain, then Min and Max assigned), magnitudes 2^-1022..MaxFloat64 for Log, NewLog on every (min,max) x 6 bases, 64 QQ pairings.',
         'finite arguments; numeric (not bitwise) comparison of -0/+0', '4/C16'),
 'C17': ('exhaustive enumeration of monotone step tickers x options x guesses for FindLevel; bounded-exhaustive domain x option lattice for Ticks/Nice against definitional tick sets',
         'FindLevel: all 715 non-increasing count functions on levels -4..4 x Max 0..3 x 121 level-limit pairs x 17 guesses (5.9M calls) against the brute-force lowest admissible level. Ticks/Nice: 12 widths x 9 centres x 6 bases x Max 1..20 x 4 level limits (Linear), 6 x 7 x 5 bases x 2 signs x Max 1..20 x 3 limits (Log): ascending, inside, complete, nice, finest level, major in minor, CountTicks laws, Nice never shrinks / finite / idempotent / ends.',
         'tick-set membership has a 1e-9-width ambiguity zone at the domain ends; Nice Max>=3 clauses asserted where a covering level exists', '4/C17'),
 'C07': ('bounded-exhaustive enumeration of user-defined CDF programs (grammar of <=3 ramp/jump/flat pieces) x y lattice on the real generic InvCDF against the exact generalised inverse; exhaustive scripted-random-source enumeration for Rand',
         'All piece sequences of length<=3 with mass x 3 widths per piece x 3 height splits x 7 shifts x 3 scales x 2 Bounds variants (16k programs), 59 built-in distributions; y in {k/64, 1e-12, 1-1e-12, every jump and flat level +-1 ulp, ends, out of range}; Rand driven by a scripted source over the complete lattice y=k/256 including the skipped y=0, exact Kolmogorov distance of the draws.',
         'accuracy 1e-9 relative + 1e-12 (+ the rounding noise of the user CDF itself); the statistical KS clause is replaced by an exact distance over a complete lattice', '4/C07'),
 'C20': ('stateless model checking of the implementation: cooperative scheduler over statement-level scheduling points injected into a go build -overlay copy of the library, iterative preemption bounding, shared-state write monitor with a commutativity reduction; exhaustive call-sequence enumeration against fresh-process references; separate free-running -race pass',
         '49-entry call alphabet covering every exported function/method that takes a slice, Sample, graph or distribution. Purity: every entry x 40 (125) fixture variants with deep bitwise snapshots. History independence: all n^2 (n^3) call sequences over the alphabet, each call compared with its fresh-process result, package-level state (15 variables located by parsing the current sources) hashed. Schedules: f||f for every entry with all schedules of <=1 (2) preemptions at ~1.7k injected scheduling points, all 820 pairs monitored at every point and discharged by commutativity when no step writes shared state (thorough: explored). -race: 16 goroutines x 50 (200) rounds.',
         'statement-level interleavings under sequential consistency; the -race pass is dynamic detection; map-iteration order is a harness-controlled answer (6 order modes, all orders for maps of <=3 keys)', '4/C20'),
# --- end of table ---
}
NOT_BUILT = 'check not built yet (work in progress; no claim made)'
checks, na = [], []
for p in props:
    i = p['id']
    if i in CHECKS:
        tech, text, note, ref = CHECKS[i]
        checks.append({
            'property_id': i,
            'quick_cmd': f'./run.sh {i} quick',
            'thorough_cmd': f'./run.sh {i} thorough',
            'evidence_file': f'/verif/evidence/{i}.json',
            'replay_cmd_template': './run.sh replay {path}',
            'engine': 'mc',
            'level_claimed': {'category': 'model_checking', 'text': text, 'design_ref': 'DESIGN.md §' + ref},
            'level_note': note,
            'technique': tech,
        })
    else:
        na.append({'property_id': i, 'reason': NOT_BUILT})
m = {
 'version': 1,
 'setup_cmd': './run.sh build',
 'hooks': {
   'guard': 'verif',
   'enable': 'no hooks are committed to /repo; instrumentation (C20 scheduling points, package-state dump) is generated from the current /repo tree at run time and applied with go build -overlay; every generated file carries //go:build verif',
   'baseline_off_cmd': '/verif/baseline.sh',
   'source_commits': [],
   'add_only': True,
 },
 'engines': [{'name': 'mc', 'path': '/verif/cmd/mc', 'serves_properties': sorted(CHECKS),
              'kind_free_text': 'hand-written bounded-exhaustive explorer in Go: indexable enumerators + explicit-state BFS over real method calls + cooperative scheduler; worker subprocesses; reference models in math/big'}],
 'checks': checks,
 'not_applicable': na,
 'notes': 'See DESIGN.md. KNOWN_FINDINGS.txt lists open/fixed findings. All checks rebuild bin/mc from /repo via the go.mod replace.',
}
json.dump(m, open(os.path.join(HERE, 'MANIFEST.json'), 'w'), indent=1)
print('checks:', len(checks), 'not_applicable:', len(na))
