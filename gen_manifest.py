#!/usr/bin/env python3
"""Regenerates MANIFEST.json from the table below (single source of truth for the registered checks)."""
import json, os
HERE = os.path.dirname(os.path.abspath(__file__))
props = [json.loads(l) for l in open(os.path.join(HERE, 'properties.jsonl'))]
# id -> (technique, level text, level note, design ref)
CHECKS = {
 'C13': ('explicit-state BFS over Add/Combine histories on the real StreamStats (state = reflection-read field bits + model multiset), exact big.Rat oracle in every state',
         'All histories of Add/Combine up to the stated depth on 2-6 accumulators, every split of every short stream with every merge order, and every split point of structured long streams with offset 1e9 are executed on the real code and compared with exact batch statistics.',
         'value alphabet {-2,0,3,1e9+1}; float tolerances are explicit forward-error bounds recorded in the evidence', '4/C13'),
 'C01': ('bounded-exhaustive enumeration of every (tie vector, allocation) class on the real MannWhitneyUTest vs an exact big.Int permutation-distribution model (model validated against literal subset enumeration)',
         'Every pair of samples up to order/relabelling with n1+n2<=10 (thorough 13), 3 arrangements x 3 alternatives, plus complete structured families to 50+50 untied / 25+25 tied, is executed and compared with pair-count U and exact tails. The two-sided shortcut defect is a listed known finding matched by signature.',
         'default exact-method limits; tolerance 1e-9; values are rank indices (the test is rank based; invariance is decided by C03)', '4/C01'),
 'C02': ('bounded-exhaustive enumeration of every (N1,N2,T) on the real UDist vs exact big.Int counts; reference model replay-validated against definitional subset enumeration',
         'Every (N1,N2,T) with N1+N2<=10 (thorough 14) and complete K=2/K=3/uniform/untied families up to 50+50 are evaluated on the whole half-integer grid and off-grid points against exact counts: PMF, CDF, mass, monotonicity, mirror law, Bounds, Step.',
         'PMF constrained only at attainable points; tolerance 1e-9, monotone slack 1e-11', '4/C02'),
 'C03': ('bounded-exhaustive enumeration of sample classes x 25 configurations of the two limit variables on the real MannWhitneyUTest; all permutations; monotone maps; swap law; error cases; normal-branch formula oracle',
         'Every class with n1+n2<=8 (thorough 10) under all 25 limit configurations (same data through exact and normal method), every permutation for n1+n2<=6 (8), six increasing maps, swap law, argument snapshots including spare capacity, every error combination, and a complete size family to 600x600.',
         'normal-branch oracle: exact rational variance + math.Erfc (the normal CDF itself is C05\'s subject); range slack 1e-12', '4/C03'),
 'C06': ('bounded-exhaustive enumeration of every (N,K,Draws) / (N,P) and every k against exact big.Rat / 600-bit references',
         'Every hypergeometric (N,K,Draws) with N<=40 (thorough 80), every binomial N<=60 (100) on 108 values of P and the complete family N in {100,250,500,999,1000}, at every integer and half-integer k from below to above the support.',
         'tolerance 1e-10; binomial reference in 600-bit big.Float on the exact value of the float P, cross-checked against big.Rat for N<=12', '4/C06'),
 'C08': ('bounded-exhaustive lattice enumeration (truly exhaustive for Choose/Lchoose n<=1000) against closed-form 640-bit references and gonum/mathext',
         'BetaInc on a 23x23 (thorough 32x32) parameter lattice x ~82 arguments including both sides of the branch switch-over, GammaInc/GammaIncComp on 13 (23) values of a x ~92 arguments including x=a+1 +-2 ulp, all 503k (n,k) pairs for Choose/Lchoose, Beta on the lattice, Sign on 11 values.',
         'gonum/mathext (cephes lineage) is the oracle for non-integer parameters; its agreement with the closed forms is measured on every integer point of the lattice', '4/C08'),
 'C18': ('bounded-exhaustive enumeration of all small digraphs/multigraphs, subgraph requests, graph pairs and strings + explicit-state BFS over NodeMarks histories (state = model set + reflection-read storage length), definitional references',
         'All digraphs on <=4 (5) nodes x roots, all multigraphs on <=3 nodes with lists <=3, structured graphs up to 100000 nodes crossing every growth boundary, every Keep/Remove request on every 3-node digraph, every pair of small multigraphs, every string of length <=5 over the escaping alphabet, and all Mark/Unmark histories to depth 4 (thorough: the complete reachable state space) from both initial states.',
         'big graphs use an independent Kosaraju partition as SCC reference (validated against mutual reachability on every small graph); set-valued lists compared as sets', '4/C18'),
 'C19': ('bounded-exhaustive enumeration of all small rooted digraphs/multigraphs on the real IDom/Dom/DomFrontier against dominance decided by node deletion and reachability',
         'All digraphs on <=4 (5) nodes x every root, all multigraphs on <=3 nodes with lists <=3, and complete structured families up to 200 nodes (irreducible ladders, complete graphs, circulant multigraphs, unreachable feeders into reachable joins). Panics are violations; non-termination is caught by a 90 s watchdog.',
         'root membership in frontiers compared only when the root has 0 or >=2 incoming edges; frontiers of unreachable nodes unconstrained; non-termination observed, not proved', '4/C19'),
# --- end of table ---
}
NOT_BUILT = 'check not built yet (work in progress; no claim made)'
checks, na = [], []
for p in props:
    i = p['id']
    if i in CHECKS:
        tech, text, note, ref = CHECKS[i]
        checks.append({
            'property_id': i,
            'quick_cmd': f'./run.sh {i} quick',
            'thorough_cmd': f'./run.sh {i} thorough',
            'evidence_file': f'/verif/evidence/{i}.json',
            'replay_cmd_template': './run.sh replay {path}',
            'engine': 'mc',
            'level_claimed': {'category': 'model_checking', 'text': text, 'design_ref': 'DESIGN.md §' + ref},
            'level_note': note,
            'technique': tech,
        })
    else:
        na.append({'property_id': i, 'reason': NOT_BUILT})
m = {
 'version': 1,
 'setup_cmd': './run.sh build',
 'hooks': {
   'guard': 'verif',
   'enable': 'no hooks are committed to /repo; instrumentation (C20 scheduling points, package-state dump) is generated from the current /repo tree at run time and applied with go build -overlay; every generated file carries //go:build verif',
   'baseline_off_cmd': '/verif/baseline.sh',
   'source_commits': [],
   'add_only': True,
 },
 'engines': [{'name': 'mc', 'path': '/verif/cmd/mc', 'serves_properties': sorted(CHECKS),
              'kind_free_text': 'hand-written bounded-exhaustive explorer in Go: indexable enumerators + explicit-state BFS over real method calls + cooperative scheduler; worker subprocesses; reference models in math/big'}],
 'checks': checks,
 'not_applicable': na,
 'notes': 'See DESIGN.md. KNOWN_FINDINGS.txt lists open/fixed findings. All checks rebuild bin/mc from /repo via the go.mod replace.',
}
json.dump(m, open(os.path.join(HERE, 'MANIFEST.json'), 'w'), indent=1)
print('checks:', len(checks), 'not_applicable:', len(na))
