#!/bin/bash
# Runs the repository's own test suite with no verification build tag / overlay (the guard is OFF).
export GOFLAGS=-mod=mod GOPROXY=off GOSUMDB=off GOTOOLCHAIN=local
cd /repo && go test -json -vet=off -count=1 -timeout 25m ./...
