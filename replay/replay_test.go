// Package replay holds a plain unit test that re-executes one recorded violation
// without the explorer (no driver, no shards, no worker processes):
//
//	REPLAY=/verif/replays/C13-3ca7e3b9.json go test ./replay -run TestReplay -count=1 -v
//
// It fails (with the recorded message) when the case still violates its property on
// /repo's current tree and passes when it does not. Without REPLAY it is skipped.
// Violations of kind "@shard:..." depend on the cases that preceded them and are
// replayed with `./run.sh replay <file>` instead.
package replay

import (
	"encoding/json"
	"os"
	"sort"
	"strings"
	"testing"

	"verif/mc/core"
	_ "verif/props"
)

func TestReplay(t *testing.T) {
	path := os.Getenv("REPLAY")
	if path == "" {
		t.Skip("set REPLAY=<replay file>")
	}
	b, err := os.ReadFile(path)
	if err != nil {
		t.Fatal(err)
	}
	var v core.Violation
	if err := json.Unmarshal(b, &v); err != nil {
		t.Fatal(err)
	}
	if strings.HasPrefix(v.Kind, "@shard:") {
		t.Skipf("history-dependent violation (kind %s): use ./run.sh replay %s", v.Kind, path)
	}
	p := core.Lookup(v.Property)
	if p == nil {
		t.Fatalf("unknown property %q", v.Property)
	}
	for i := range p.Kinds {
		if p.Kinds[i].Name != v.Kind {
			continue
		}
		r := core.NewRec(v.Property, 0)
		if err := p.Kinds[i].Replay(v.Case, r); err != nil {
			t.Fatal(err)
		}
		var sigs []string
		for s := range r.Viol {
			sigs = append(sigs, s)
		}
		sort.Strings(sigs)
		for _, s := range sigs {
			t.Errorf("property %s violated [%s]: %s", v.Property, s, r.Viol[s].Msg)
		}
		for s, x := range r.Known {
			t.Logf("known finding %s: %s", s, x.Msg)
		}
		t.Logf("case: %s", string(v.Case))
		return
	}
	t.Fatalf("property %s has no replayer for kind %q", v.Property, v.Kind)
}
