module verif

go 1.22

require (
	github.com/aclements/go-moremath v0.0.0
	gonum.org/v1/gonum v0.15.1
)

require golang.org/x/exp v0.0.0-20231110203233-9a3e6036ecaa // indirect

replace github.com/aclements/go-moremath => /repo

replace golang.org/x/exp => /root/go/pkg/mod/golang.org/x/exp@v0.0.0-20231110203233-9a3e6036ecaa
