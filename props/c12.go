package props

import (
	"fmt"
	"math"
	"sort"

	"github.com/aclements/go-moremath/stats"

	"verif/mc/core"
	"verif/mc/enum"
	"verif/mc/ref"
)

// C12 — A KDE is a proper probability distribution consistent with its kernel formula.

type C12Case struct {
	Xs      []float64 `json:"xs"`
	Weights []float64 `json:"weights"`
	Kernel  int       `json:"kernel"` // 0 Epanechnikov, 1 Gaussian, 2 Delta
	H       float64   `json:"bandwidth"`
	HasMin  bool      `json:"has_min,omitempty"`
	Min     float64   `json:"min,omitempty"`
	HasMax  bool      `json:"has_max,omitempty"`
	Max     float64   `json:"max,omitempty"`
	// Sorted: hand the library the sample in ascending order (weights attached)
	// with Sample.Sorted set.
	Sorted bool `json:"sorted,omitempty"`
}

type C12BW struct {
	Xs []float64 `json:"xs"`
}

func init() {
	core.Register(&core.Prop{
		ID:    "C12",
		Title: "A KDE is a proper probability distribution consistent with its kernel formula",
		Run:   c12Run,
		Kinds: []core.Kind{core.ReplayOf("kde", c12Check), core.ReplayOf("bandwidth", c12Bandwidth)},
		Rule: "every multiset of size 1..3 over {0,0.3,1,2.5} and structured samples of 10 and 40 values; weights nil or (1,2,3,...); 3 kernels; bandwidth in {0.02,0.3,1,50} x spread; 4 boundary configurations with boundaries at distance {0, 0.5h, 10h} from the data; " +
			"x lattice: 129 points across Bounds() extended by 3h, every kernel-support end x_i+-h and its reflections, +-1 ulp. Oracle: the kernel formulas evaluated independently, folded over all images at the boundaries. Non-trivial: >=2 distinct values or a boundary.",
		Technique: "bounded-exhaustive sample x configuration enumeration of the real KDE on an argument lattice against independently evaluated kernel sums; per-cell Gauss-Legendre integrals",
		Assumptions: []string{
			"data inside the boundaries; doubly bounded supports at least h/50 wide (narrower ones cost O(h/width) series terms: slowness, not wrongness)",
			"mass of Bounds = P(lo<=X<=hi) (closed; matters only for the delta kernel); the zero-Bandwidth clause is exercised on unweighted samples (weighted StdDev is a documented panic)",
			"PDF/CDF accuracy 1e-10 (1+|value|); CDF monotonicity slack 1e-11; the delta kernel's PDF is not compared (not well defined)",
			"delta kernel: an upper boundary within rounding distance of a sample is not generated (the mirror image of the jump is then decided by rounding)",
		},
	})
}

func (c *C12Case) kde() *stats.KDE {
	k := &stats.KDE{Sample: stats.Sample{Xs: append([]float64{}, c.Xs...)}, Kernel: stats.KDEKernel(c.Kernel), Bandwidth: c.H}
	if c.Weights != nil {
		k.Sample.Weights = append([]float64{}, c.Weights...)
	}
	if c.Sorted {
		idx := make([]int, len(c.Xs))
		for i := range idx {
			idx[i] = i
		}
		sort.SliceStable(idx, func(a, b int) bool { return c.Xs[idx[a]] < c.Xs[idx[b]] })
		for j, i := range idx {
			k.Sample.Xs[j] = c.Xs[i]
			if c.Weights != nil {
				k.Sample.Weights[j] = c.Weights[i]
			}
		}
		k.Sample.Sorted = true
	}
	if c.HasMin || c.HasMax {
		k.BoundaryMin, k.BoundaryMax = math.Inf(-1), math.Inf(1)
		if c.HasMin {
			k.BoundaryMin = c.Min
		}
		if c.HasMax {
			k.BoundaryMax = c.Max
		}
	}
	return k
}

// kernel pdf/cdf at distance u from the centre, bandwidth h
func c12KPDF(kernel int, u, h float64) float64 {
	switch kernel {
	case 0:
		if u <= -h || u >= h {
			return 0
		}
		t := u / h
		return 0.75 * (1 - t*t) / h
	case 1:
		t := u / h
		return math.Exp(-t*t/2) / (h * math.Sqrt(2*math.Pi))
	}
	return 0
}

func c12KCDF(kernel int, u, h float64) float64 {
	switch kernel {
	case 0:
		if u <= -h {
			return 0
		}
		if u >= h {
			return 1
		}
		t := u / h
		return 0.25 * (2 + 3*t - t*t*t)
	case 1:
		return 0.5 * math.Erfc(-u/(h*math.Sqrt2))
	}
	if u >= 0 {
		return 1
	}
	return 0
}

// unbounded mixture
func (c *C12Case) mix(f func(kernel int, u, h float64) float64, x float64) float64 {
	s, W := 0.0, 0.0
	for i, xi := range c.Xs {
		w := 1.0
		if c.Weights != nil {
			w = c.Weights[i]
		}
		s += w * f(c.Kernel, x-xi, c.H)
		W += w
	}
	return s / W
}

// reach is the distance beyond which the kernel is negligible (<1e-300)
func (c *C12Case) reach() float64 {
	switch c.Kernel {
	case 0:
		return c.H
	case 1:
		return 40 * c.H
	}
	return 0
}

func (c *C12Case) refPDF(x float64) float64 {
	if !c.HasMin && !c.HasMax {
		return c.mix(c12KPDF, x)
	}
	if (c.HasMin && x < c.Min) || (c.HasMax && x >= c.Max) {
		return 0
	}
	switch {
	case c.HasMin && !c.HasMax:
		return c.mix(c12KPDF, x) + c.mix(c12KPDF, 2*c.Min-x)
	case !c.HasMin && c.HasMax:
		return c.mix(c12KPDF, x) + c.mix(c12KPDF, 2*c.Max-x)
	}
	d := 2 * (c.Max - c.Min)
	lo, hi := c.dataRange()
	K := int(math.Ceil((c.reach()+(hi-lo)+(c.Max-c.Min))/d)) + 2
	s := 0.0
	for k := -K; k <= K; k++ {
		s += c.mix(c12KPDF, x+float64(k)*d) + c.mix(c12KPDF, 2*c.Min-x+float64(k)*d)
	}
	return s
}

func (c *C12Case) refCDF(x float64) float64 {
	if !c.HasMin && !c.HasMax {
		return c.mix(c12KCDF, x)
	}
	if c.HasMin && x < c.Min {
		return 0
	}
	if c.HasMax && x >= c.Max {
		return 1
	}
	switch {
	case c.HasMin && !c.HasMax:
		return c.mix(c12KCDF, x) - c.mix(c12KCDF, 2*c.Min-x)
	case !c.HasMin && c.HasMax:
		return c.mix(c12KCDF, x) + (1 - c.mix(c12KCDF, 2*c.Max-x))
	}
	d := 2 * (c.Max - c.Min)
	lo, hi := c.dataRange()
	K := int(math.Ceil((c.reach()+(hi-lo)+(c.Max-c.Min))/d)) + 2
	s := 0.0
	for k := -K; k <= K; k++ {
		s += c.mix(c12KCDF, x+float64(k)*d) - c.mix(c12KCDF, 2*c.Min-x+float64(k)*d)
	}
	return s
}

func (c *C12Case) dataRange() (lo, hi float64) {
	lo, hi = math.Inf(1), math.Inf(-1)
	for _, x := range c.Xs {
		lo, hi = math.Min(lo, x), math.Max(hi, x)
	}
	return
}

func c12Check(c *C12Case, r *core.Rec) {
	k := c.kde()
	lo, hi := c.dataRange()
	if hi > lo || c.HasMin || c.HasMax {
		r.NT()
	}
	sx := snapFull(k.Sample.Xs)
	// Bounds
	bl, bh := k.Bounds()
	r.Trans(1)
	if math.IsInf(bl, 0) || math.IsInf(bh, 0) || math.IsNaN(bl) || math.IsNaN(bh) || !(bl <= bh) {
		r.Fail("Bounds-finite", "Bounds()=(%v,%v)", bl, bh)
		return
	}
	if (c.HasMin && bl < c.Min) || (c.HasMax && bh > c.Max) {
		r.Fail("Bounds-inside", "Bounds()=(%v,%v) outside the boundaries", bl, bh)
	}
	massLo := c.refCDF(math.Nextafter(bl, math.Inf(-1)))
	if c.Kernel != 2 {
		massLo = c.refCDF(bl)
	}
	if mass := c.refCDF(bh) - massLo; mass < 0.98-1e-9 {
		r.Fail("Bounds-mass", "kernel %d xs=%v h=%v boundaries(%v %v,%v %v): Bounds()=(%v,%v) hold %v of the mass", c.Kernel, trunc(c.Xs), c.H, c.HasMin, c.Min, c.HasMax, c.Max, bl, bh, mass)
	}
	// x lattice
	xl, xh := math.Min(bl, lo)-3*c.H, math.Max(bh, hi)+3*c.H
	var xs []float64
	for i := 0; i <= 128; i++ {
		xs = append(xs, xl+(xh-xl)*float64(i)/128)
	}
	addPt := func(p float64) {
		if p > xl-10*c.H && p < xh+10*c.H {
			xs = append(xs, p, math.Nextafter(p, math.Inf(-1)), math.Nextafter(p, math.Inf(1)))
		}
	}
	for _, xi := range c.Xs {
		for _, e := range []float64{xi - c.H, xi, xi + c.H} {
			addPt(e)
			if c.HasMin && c.HasMax {
				// every image of the kink under the reflection group that lands in the support
				d := 2 * (c.Max - c.Min)
				for _, base := range []float64{e, 2*c.Min - e} {
					k0 := math.Floor((c.Min - base) / d)
					for k := k0 - 1; k <= k0+2; k++ {
						if p := base + k*d; p >= c.Min && p <= c.Max {
							addPt(p)
						}
					}
				}
			} else if c.HasMin {
				addPt(2*c.Min - e)
			} else if c.HasMax {
				addPt(2*c.Max - e)
			}
		}
	}
	if c.HasMin {
		addPt(c.Min)
	}
	if c.HasMax {
		addPt(c.Max)
	}
	sort.Float64s(xs)
	prevC := 0.0
	var px, pc []float64
	for i, x := range xs {
		if i > 0 && x == xs[i-1] {
			continue
		}
		gc := k.CDF(x)
		r.Trans(1)
		wc := c.refCDF(x)
		if !r.Err("CDF", math.Abs(gc-wc), 1e-10*(1+math.Abs(wc))) {
			r.Fail("CDF", "kernel %d xs=%v w=%v h=%v boundaries(%v %v,%v %v): CDF(%v)=%v, kernel formula gives %v", c.Kernel, trunc(c.Xs), trunc(c.Weights), c.H, c.HasMin, c.Min, c.HasMax, c.Max, x, gc, wc)
		}
		if gc < prevC-1e-11 {
			r.Fail("CDF-monotone", "CDF drops from %v to %v at %v", prevC, gc, x)
		}
		if gc < -1e-12 || gc > 1+1e-12 || math.IsNaN(gc) {
			r.Fail("CDF-range", "CDF(%v)=%v", x, gc)
		}
		prevC = gc
		r.OutcomeF(gc)
		if c.Kernel == 2 {
			if p := k.PDF(x); p < 0 || math.IsNaN(p) {
				r.Fail("PDF-negative", "PDF(%v)=%v", x, p)
			}
			continue
		}
		gp := k.PDF(x)
		r.Trans(1)
		wp := c.refPDF(x)
		if !r.Err("PDF", math.Abs(gp-wp), 1e-10*(1+math.Abs(wp))) {
			r.Fail("PDF", "kernel %d xs=%v w=%v h=%v boundaries(%v %v,%v %v): PDF(%v)=%v, kernel formula gives %v", c.Kernel, trunc(c.Xs), trunc(c.Weights), c.H, c.HasMin, c.Min, c.HasMax, c.Max, x, gp, wp)
		}
		if gp < 0 || math.IsNaN(gp) {
			r.Fail("PDF-negative", "PDF(%v)=%v", x, gp)
		}
		if ((c.HasMin && x < c.Min) || (c.HasMax && x >= c.Max)) && gp != 0 {
			r.Fail("PDF-outside", "PDF(%v)=%v outside [BoundaryMin,BoundaryMax)", x, gp)
		}
		px, pc = append(px, x), append(pc, gc)
	}
	// limits
	far := 1e3 * (c.H + (hi - lo) + 1)
	if a, b := k.CDF(lo-far), k.CDF(hi+far); math.Abs(a) > 1e-12 || math.Abs(b-1) > 1e-12 {
		r.Fail("CDF-limits", "CDF far left %v, far right %v", a, b)
	}
	if c.HasMin {
		if v := k.CDF(c.Min); math.Abs(v) > 1e-12 && !(c.Kernel == 2) {
			r.Fail("CDF-at-min", "CDF(BoundaryMin)=%v", v)
		}
		if v := k.CDF(math.Nextafter(c.Min, math.Inf(-1))); v != 0 {
			r.Fail("CDF-below-min", "CDF just below BoundaryMin = %v", v)
		}
	}
	if c.HasMax {
		if v := k.CDF(c.Max); v != 1 {
			r.Fail("CDF-at-max", "CDF(BoundaryMax)=%v", v)
		}
	}
	// integral of the library's PDF over each lattice cell = difference of the library's CDF
	if c.Kernel != 2 {
		for i := 0; i+1 < len(px); i++ {
			a, b := px[i], px[i+1]
			if b-a < 1e-9*(c.H+math.Abs(a)) {
				continue // the +-1 ulp companions
			}
			if (c.HasMin && a < c.Min) || (c.HasMax && b >= c.Max) {
				continue
			}
			in := ref.Integrate20(k.PDF, a, b)
			if !r.Err("integral", math.Abs(in-(pc[i+1]-pc[i])), 1e-9) {
				r.Fail("integral", "kernel %d xs=%v h=%v boundaries(%v %v,%v %v): integral of PDF over [%v,%v] = %v, CDF difference %v", c.Kernel, trunc(c.Xs), c.H, c.HasMin, c.Min, c.HasMax, c.Max, a, b, in, pc[i+1]-pc[i])
				break
			}
		}
	}
	if !sx.same(k.Sample.Xs) {
		r.Fail("modified", "the KDE modified its sample")
	}
	// E-hist on the KDE value itself: its exported fields may be changed between
	// calls; a used KDE that is then reconfigured must answer like a fresh one.
	probe := []float64{lo - 0.3*c.H, lo + 0.37*(hi-lo+c.H), hi + 0.9*c.H}
	for step := 0; step < 5; step++ {
		used := *k // value copy carries whatever the library cached inside
		alt := *c
		switch step {
		case 4:
			// the caller rewrites the sample values in place (reflected about the middle)
			alt.Xs = make([]float64, len(c.Xs))
			alt.Sorted = false
			used.Sample.Sorted = false
			for i, x := range used.Sample.Xs {
				used.Sample.Xs[i] = lo + hi - x
			}
			copy(alt.Xs, used.Sample.Xs)
			if c.Weights != nil {
				alt.Weights = append([]float64{}, used.Sample.Weights...)
			}
		case 0:
			alt.Kernel = (c.Kernel + 1) % 3
			used.Kernel = stats.KDEKernel(alt.Kernel)
		case 1:
			alt.Kernel = (c.Kernel + 2) % 3
			used.Kernel = stats.KDEKernel(alt.Kernel)
		case 2:
			alt.H = c.H * 1.5
			used.Bandwidth = alt.H
		case 3:
			if c.HasMin || c.HasMax {
				alt.HasMin, alt.HasMax = false, false
				used.BoundaryMin, used.BoundaryMax = 0, 0
			} else {
				alt.HasMin, alt.Min = true, lo-c.H
				used.BoundaryMin, used.BoundaryMax = alt.Min, math.Inf(1)
			}
		}
		fresh := alt.kde()
		for _, x := range probe {
			a, b := used.CDF(x), fresh.CDF(x)
			pa, pb := used.PDF(x), fresh.PDF(x)
			r.Trans(4)
			if !sameF(a, b) || !sameF(pa, pb) {
				r.Fail("reconfigured", "a KDE used with kernel %d h=%v and then reconfigured (step %d) gives CDF/PDF(%v)=%v/%v, a fresh KDE with the same fields gives %v/%v", c.Kernel, c.H, step, x, a, pa, b, pb)
				break
			}
		}
	}
}

// c12Bandwidth: Scott/Silverman formulas and the lazily filled Bandwidth.
func c12Bandwidth(c *C12BW, r *core.Rec) {
	s := stats.Sample{Xs: append([]float64{}, c.Xs...)}
	n := float64(len(c.Xs))
	m := ref.ExactMoments(c.Xs)
	if m.Var == nil || m.Var.Sign() == 0 {
		r.Skip("bandwidth rules need >=2 distinct values")
		return
	}
	r.NT()
	sd := ref.SqrtRat(m.Var)
	sorted := append([]float64{}, c.Xs...)
	sort.Float64s(sorted)
	iqr := ref.F(c10R8(sorted, 0.75)) - ref.F(c10R8(sorted, 0.25))
	scale := 1.06 * math.Pow(n, -0.2)
	wantSilver := scale * sd
	wantScott := scale * math.Min(sd, iqr/1.349)
	// s and IQR carry the conditioning of the data: a stable variance algorithm is accurate to
	// about n eps kappa with kappa = sqrt(1 + mean^2/var) (the same bound C09 uses), a quantile
	// difference to eps max|x|/IQR
	tolS := 1e-12 + 8*n*ref.Eps*m.CondVar
	tolScott := tolS
	if iqr > 0 {
		tolScott += 8 * ref.Eps * m.MaxAbs / iqr
	}
	if g := stats.BandwidthSilverman(s); !r.Err("Silverman", math.Abs(g-wantSilver)/wantSilver, tolS) {
		r.Fail("Silverman", "BandwidthSilverman(%v)=%v want %v", trunc(c.Xs), g, wantSilver)
	}
	g := stats.BandwidthScott(s)
	if wantScott == 0 {
		if g != 0 {
			r.Fail("Scott", "BandwidthScott(%v)=%v want 0", trunc(c.Xs), g)
		}
		return
	}
	if !r.Err("Scott", math.Abs(g-wantScott)/wantScott, tolScott) {
		r.Fail("Scott", "BandwidthScott(%v)=%v want %v", trunc(c.Xs), g, wantScott)
	}
	// zero Bandwidth selects Scott's rule: state {unset} --first call--> {set}
	for kern := 0; kern < 2; kern++ {
		for first := 0; first < 9; first++ {
			lazy := &stats.KDE{Sample: s, Kernel: stats.KDEKernel(kern)}
			expl := &stats.KDE{Sample: s, Kernel: stats.KDEKernel(kern), Bandwidth: g}
			lo, hi := sorted[0], sorted[len(sorted)-1]
			x := lo + 0.3*(hi-lo)
			// the FIRST query (the one that fills the bandwidth in) inside the data, at its
			// ends, just outside and far outside; its own value must be right as well
			var got, want float64
			switch first {
			case 0:
				got, want = lazy.PDF(x), expl.PDF(x)
			case 1:
				got, want = lazy.CDF(x), expl.CDF(x)
			case 2:
				lazy.Bounds()
			case 3:
				got, want = lazy.PDF(lo), expl.PDF(lo)
			case 4:
				got, want = lazy.CDF(hi), expl.CDF(hi)
			case 5:
				got, want = lazy.PDF(lo-0.4*g), expl.PDF(lo-0.4*g)
			case 6:
				got, want = lazy.CDF(hi+0.4*g), expl.CDF(hi+0.4*g)
			case 7:
				got, want = lazy.CDF(lo-0.4*g), expl.CDF(lo-0.4*g)
			case 8:
				got, want = lazy.PDF(hi+3*(hi-lo)+10*g), expl.PDF(hi+3*(hi-lo)+10*g)
			}
			r.Trans(1)
			if !sameF(got, want) {
				r.Fail("lazy-first-query", "KDE with Bandwidth 0, kernel %d: the first query (variant %d) returned %v, with the Scott bandwidth %v set explicitly it is %v", kern, first, got, g, want)
				continue
			}
			if lazy.Bandwidth != g {
				r.Fail("lazy-bandwidth", "after the first call (%d) Bandwidth=%v, BandwidthScott=%v", first, lazy.Bandwidth, g)
				continue
			}
			if !sameF(lazy.PDF(x), expl.PDF(x)) || !sameF(lazy.CDF(x), expl.CDF(x)) {
				r.Fail("lazy-vs-explicit", "lazily filled bandwidth gives different results from the explicit one")
			}
			l1, h1 := lazy.Bounds()
			l2, h2 := expl.Bounds()
			if l1 != l2 || h1 != h2 {
				r.Fail("lazy-vs-explicit", "Bounds differ: (%v,%v) vs (%v,%v)", l1, h1, l2, h2)
			}
		}
	}
}

func c12Run(c *core.Ctx) {
	r := c.R
	alpha := []float64{0, 0.3, 1, 2.5}
	var samples [][]float64
	for n := 1; n <= 3; n++ {
		enum.Multisets(n, len(alpha), func(s []int) {
			x := make([]float64, n)
			for i, k := range s {
				x[i] = alpha[k]
			}
			samples = append(samples, riffle(x))
		})
	}
	for _, n := range []int{10, 40} {
		a, b := make([]float64, n), make([]float64, n)
		for i := range a {
			a[i] = float64((i*7)%n)/4 - 1
			b[i] = float64(i%3) + float64(i*i%11)/16
		}
		samples = append(samples, a, b)
	}
	hs := []float64{0.02, 0.3, 1, 50}
	dists := []float64{0, 0.5, 10}
	cs := &C12Case{}
	run := func() {
		cs.Sorted = false
		r.Case("kde", cs)
		r.Try(func() { c12Check(cs, r) })
		cs.Sorted = true
		r.Case("kde", cs)
		r.Try(func() { c12Check(cs, r) })
		cs.Sorted = false
	}
	for _, xs := range samples {
		if len(xs) > 3 && !c.Thorough() && len(xs) != 10 {
			continue
		}
		lo, hi := math.Inf(1), math.Inf(-1)
		for _, x := range xs {
			lo, hi = math.Min(lo, x), math.Max(hi, x)
		}
		spread := hi - lo
		if spread == 0 {
			spread = 1
		}
		for wi := 0; wi < 2; wi++ {
			var ws []float64
			if wi == 1 {
				if len(xs) == 1 {
					continue
				}
				ws = make([]float64, len(xs))
				for i := range ws {
					ws[i] = float64(i%3 + 1)
				}
			}
			for kern := 0; kern < 3; kern++ {
				for _, hf := range hs {
					if kern == 2 && hf != 1 {
						continue // the delta kernel ignores the bandwidth
					}
					if !c.Mine() {
						continue
					}
					h := hf * spread
					cs.Xs, cs.Weights, cs.Kernel, cs.H = xs, ws, kern, h
					cs.HasMin, cs.HasMax, cs.Min, cs.Max = false, false, 0, 0
					run()
					for _, dl := range dists {
						for _, dh := range dists {
							if kern == 2 && dh == 0 {
								// The delta kernel is a jump: with BoundaryMax one ulp above a
								// sample, the float evaluation of the sample's mirror image
								// 2*max-x lands on either side of the jump (discontinuity
								// ambiguity, DESIGN rule 3). Touching upper boundaries are
								// explored for the continuous kernels only.
								continue
							}
							bmin, bmax := lo-dl*h, hi+dh*h
							if dh == 0 {
								// support is half open: the largest value must stay inside
								bmax = math.Nextafter(hi, math.Inf(1))
							}
							// lower only / upper only (once per distance)
							if dh == dists[0] {
								cs.HasMin, cs.HasMax, cs.Min, cs.Max = true, false, bmin, 0
								run()
							}
							if dl == dists[0] {
								cs.HasMin, cs.HasMax, cs.Min, cs.Max = false, true, 0, bmax
								run()
							}
							if bmax-bmin >= h/50 {
								cs.HasMin, cs.HasMax, cs.Min, cs.Max = true, true, bmin, bmax
								run()
							} else {
								r.Skip("doubly bounded support narrower than h/50")
							}
						}
					}
				}
			}
		}
	}
	r.Bound("kde", fmt.Sprintf("%d samples x weights x 3 kernels x 4 bandwidths x (1 + 3 + 3 + 9) boundary configurations x {as given, ascending with Sorted set}", len(samples)))
	bc := &C12BW{}
	for _, xs := range samples {
		if !c.Mine() {
			continue
		}
		bc.Xs = xs
		r.Case("bandwidth", bc)
		r.Try(func() { c12Bandwidth(bc, r) })
	}
	// bandwidth rules on every multiset of size 4..9 over {0,0.3,1,2.5} and over
	// {1,5,9}: heavy ties, including samples whose quartiles coincide (IQR = 0)
	// while the standard deviation does not vanish
	for _, alpha := range [][]float64{{0, 0.3, 1, 2.5}, {1, 5, 9}} {
		for size := 4; size <= 9; size++ {
			enum.Multisets(size, len(alpha), func(ms []int) {
				if !c.Mine() {
					return
				}
				xs := make([]float64, 0, size)
				for _, k := range ms {
					xs = append(xs, alpha[k])
				}
				bc.Xs = riffle(xs)
				r.Case("bandwidth", bc)
				r.Try(func() { c12Bandwidth(bc, r) })
			})
		}
	}
	// the same rules on shifted and rescaled data (timestamps, micro-units): every multiset
	// of size 4..6 over {0,0.3,1,2.5} at offsets 2^17, 2^24, 2^30 and scales 1e-6, 1e6
	for _, tr := range [][2]float64{{1, 0x1p17}, {1, 0x1p24}, {1, 0x1p30}, {1e-6, 0}, {1e6, 0}, {1e-6, 1}} {
		alpha := []float64{0, 0.3, 1, 2.5}
		for size := 4; size <= 6; size++ {
			enum.Multisets(size, len(alpha), func(ms []int) {
				if !c.Mine() {
					return
				}
				xs := make([]float64, 0, size)
				for _, k := range ms {
					xs = append(xs, alpha[k]*tr[0]+tr[1])
				}
				bc.Xs = riffle(xs)
				r.Case("bandwidth", bc)
				r.Try(func() { c12Bandwidth(bc, r) })
			})
		}
	}
	r.Bound("bandwidth", "the KDE samples plus every multiset of size 4..9 over {0,0.3,1,2.5} and {1,5,9}, and of size 4..6 at 3 offsets and 3 scales")
}
