package props

import (
	"fmt"
	"math"
	"math/big"
	"sort"

	"github.com/aclements/go-moremath/stats"

	"verif/mc/core"
	"verif/mc/enum"
	"verif/mc/ref"
)

// C03 — Mann-Whitney laws at every size: symmetry, invariance, errors, approximation.

// C03Case is raw data plus a configuration of the two public limits.
type C03Case struct {
	X1  []float64 `json:"x1"`
	X2  []float64 `json:"x2"`
	EL  int       `json:"exact_limit"`
	TEL int       `json:"ties_exact_limit"`
	// Mode selects the law family: "" = oracle+swap+errors+unmodified,
	// "perm" = every permutation of both samples, "map" = monotone maps.
	Mode string `json:"mode,omitempty"`
}

func init() {
	core.Register(&core.Prop{
		ID:    "C03",
		Title: "Mann-Whitney laws at every size: symmetry, invariance, errors, approximation",
		Run:   c03Run,
		Kinds: []core.Kind{core.ReplayOf("mw", c03Check)},
		Rule: "every (tie vector, allocation) class with n1+n2 <= bound under each of 25 configurations of (MannWhitneyExactLimit, MannWhitneyTiesExactLimit) in {0,3,25,50,1e6}^2 so the same data goes through both methods; " +
			"all permutations of both samples (n1+n2<=6); eight strictly increasing maps (two onto adjacent floats); swap law; zeros written with both signs; every pair of overlapping windows of the pooled series as aliased arguments; error cases (empty sides, constant data of sizes 1..8) in every configuration; " +
			"a complete size family n1,n2 in {1,2,7,24,25,26,49,50,51,100,300,600} x data patterns at default limits. Non-trivial: result not an error and 0<U<n1*n2 or ties present.",
		Technique: "bounded-exhaustive input x configuration enumeration of the real MannWhitneyUTest; exact permutation model in the exact branch, statement formula (exact rational variance, erfc) in the normal branch",
		Assumptions: []string{
			"range checks carry a slack of 1e-12 (a probability computed in floating point)",
			"two-sided normal p-value read as min(1, 2*(1-Phi(max(0,|U-mean|-0.5)/sigma)))",
			"known finding mw-two-sided-asym (exact two-sided p-value) is matched only by its signature; every other law is checked at full strength",
			"the harness writes the two limit variables and restores them after every case",
		},
	})
}

var c03Cache = map[string]*ref.UNull{}

func c03Null(n1, n2 int, T []int) *ref.UNull {
	key := fmt.Sprint(n1, n2, T)
	if u := c03Cache[key]; u != nil {
		return u
	}
	if len(c03Cache) > 64 {
		c03Cache = map[string]*ref.UNull{}
	}
	u := ref.UCounts(n1, n2, T)
	c03Cache[key] = u
	return u
}

// tieVector returns the tie vector of the pooled data.
func tieVector(x1, x2 []float64) (T []int, ties bool) {
	pool := append(append([]float64{}, x1...), x2...)
	sort.Float64s(pool)
	for i := 0; i < len(pool); {
		j := i
		for j < len(pool) && pool[j] == pool[i] {
			j++
		}
		T = append(T, j-i)
		if j-i > 1 {
			ties = true
		}
		i = j
	}
	return
}

func phi(z float64) float64 { return 0.5 * math.Erfc(-z/math.Sqrt2) }

// mwNormalExpected evaluates the statement's normal approximation.
func mwNormalExpected(n1, n2 int, T []int, twoU int, alt stats.LocationHypothesis) (p float64, sigmaZero bool) {
	N := int64(n1 + n2)
	tie := new(big.Int)
	for _, t := range T {
		t64 := int64(t)
		tie.Add(tie, big.NewInt(t64*t64*t64-t64))
	}
	// var = n1 n2 / 12 * ((N+1) - tie/(N(N-1)))
	v := new(big.Rat).SetFrac(tie, big.NewInt(N*(N-1)))
	v.Sub(ref.RI(N+1), v)
	v.Mul(v, big.NewRat(int64(n1)*int64(n2), 12))
	if v.Sign() <= 0 {
		return 0, true
	}
	sigma := ref.SqrtRat(v)
	d := float64(twoU)/2 - float64(n1)*float64(n2)/2
	switch alt {
	case stats.LocationLess:
		return phi((d + 0.5) / sigma), false
	case stats.LocationGreater:
		return phi(-(d - 0.5) / sigma), false
	}
	a := math.Abs(d) - 0.5
	if a < 0 {
		a = 0
	}
	return math.Min(1, 2*phi(-a/sigma)), false
}

type bitsnap struct {
	bits []uint64
	ln   int
}

// snapFull records the bit pattern of a slice up to its capacity.
func snapFull(x []float64) bitsnap {
	full := x[:cap(x)]
	b := make([]uint64, len(full))
	for i, v := range full {
		b[i] = math.Float64bits(v)
	}
	return bitsnap{b, len(x)}
}

func (s bitsnap) same(x []float64) bool {
	if len(x) != s.ln || cap(x) != len(s.bits) {
		return false
	}
	for i, v := range x[:cap(x)] {
		if math.Float64bits(v) != s.bits[i] {
			return false
		}
	}
	return true
}

// withSpare copies x into a slice that has spare capacity filled with a
// sentinel, so writes beyond len are visible.
func withSpare(x []float64) []float64 {
	y := make([]float64, len(x), len(x)+3)
	copy(y, x)
	full := y[:cap(y)]
	for i := len(x); i < len(full); i++ {
		full[i] = -12345.678
	}
	return y
}

func c03Check(c *C03Case, r *core.Rec) {
	oldE, oldT := stats.MannWhitneyExactLimit, stats.MannWhitneyTiesExactLimit
	stats.MannWhitneyExactLimit, stats.MannWhitneyTiesExactLimit = c.EL, c.TEL
	defer func() { stats.MannWhitneyExactLimit, stats.MannWhitneyTiesExactLimit = oldE, oldT }()
	switch c.Mode {
	case "perm":
		c03Perm(c, r)
		return
	case "map":
		c03Map(c, r)
		return
	case "alias":
		c03Alias(c, r)
		return
	}
	n1, n2 := len(c.X1), len(c.X2)
	x1, x2 := withSpare(c.X1), withSpare(c.X2)
	s1, s2 := snapFull(x1), snapFull(x2)
	T, ties := tieVector(c.X1, c.X2)
	twoU := ref.PairU(c.X1, c.X2)
	exact := (!ties && n1 <= c.EL && n2 <= c.EL) || (ties && n1 <= c.TEL && n2 <= c.TEL)
	var got [3]*stats.MannWhitneyUTestResult
	for ai, alt := range c01Alts {
		res, err := stats.MannWhitneyUTest(x1, x2, alt)
		r.Trans(1)
		if !s1.same(x1) || !s2.same(x2) {
			r.Fail("modified", "arguments modified by the call (alt %v)", alt)
			return
		}
		switch {
		case n1 == 0 || n2 == 0:
			if err != stats.ErrSampleSize || res != nil {
				r.Fail("ErrSampleSize", "n1=%d n2=%d: got (%v, %v), want ErrSampleSize", n1, n2, res, err)
			}
			continue
		case len(T) == 1:
			if err != stats.ErrSamplesEqual || res != nil {
				r.Fail("ErrSamplesEqual", "all %d pooled values equal: got (%v, %v), want ErrSamplesEqual", n1+n2, res, err)
			}
			continue
		}
		if err != nil || res == nil {
			r.Fail("error", "unexpected error %v for x1=%v x2=%v", err, c.X1, c.X2)
			continue
		}
		got[ai] = res
		if res.N1 != n1 || res.N2 != n2 || res.AltHypothesis != alt {
			r.Fail("fields", "N1,N2,Alt=%d,%d,%v want %d,%d,%v", res.N1, res.N2, res.AltHypothesis, n1, n2, alt)
		}
		if res.U*2 != float64(twoU) {
			r.Fail("U", "U=%v, pair count gives %v", res.U, float64(twoU)/2)
		}
		r.OutcomeF(res.P)
		var want float64
		var u *ref.UNull
		if exact {
			u = c03Null(n1, n2, T)
			want = mwExactExpected(u, twoU, alt)
		} else {
			want, _ = mwNormalExpected(n1, n2, T, twoU, alt)
		}
		name := "P-normal"
		if exact {
			name = "P-exact"
		}
		known := false
		if !r.Err(name, math.Abs(res.P-want), 1e-9) {
			if exact && alt == stats.LocationDiffers && math.Abs(res.P-mwKnownTwoSided(u, twoU)) <= 1e-9 {
				r.KnownHit("mw-two-sided-asym", "x1=%v x2=%v limits=(%d,%d) two-sided: P=%v, exact %v", c.X1, c.X2, c.EL, c.TEL, res.P, want)
				known = true
			} else {
				r.Fail(name+"-"+alt.String(), "x1=%v x2=%v limits=(%d,%d) alt=%v: P=%v, want %v (U=%v, exact branch=%v)", trunc(c.X1), trunc(c.X2), c.EL, c.TEL, alt, res.P, want, float64(twoU)/2, exact)
			}
		}
		if !known && (res.P < -1e-12 || res.P > 1+1e-12 || math.IsNaN(res.P)) {
			r.Fail("P-range", "P=%v outside [0,1]", res.P)
		}
	}
	if got[0] == nil || got[1] == nil || got[2] == nil {
		return
	}
	if ties || (twoU > 0 && twoU < 2*n1*n2) {
		r.NT()
	}
	// Swap law.
	var sw [3]*stats.MannWhitneyUTestResult
	for ai, alt := range c01Alts {
		res, err := stats.MannWhitneyUTest(x2, x1, alt)
		r.Trans(1)
		if err != nil || res == nil {
			r.Fail("swap-error", "swapped call failed: %v", err)
			return
		}
		sw[ai] = res
	}
	if sw[0].U != float64(n1*n2)-got[0].U || sw[0].N1 != n2 || sw[0].N2 != n1 {
		r.Fail("swap-U", "U(x1,x2)=%v, U(x2,x1)=%v, N1*N2=%d", got[0].U, sw[0].U, n1*n2)
	}
	if !r.Err("swap-one-sided", math.Max(math.Abs(sw[0].P-got[2].P), math.Abs(sw[2].P-got[0].P)), 1e-9) {
		r.Fail("swap-one-sided", "less/greater (x1,x2)=%v/%v but greater/less (x2,x1)=%v/%v", got[0].P, got[2].P, sw[2].P, sw[0].P)
	}
	if !r.Err("swap-two-sided", math.Abs(sw[1].P-got[1].P), 1e-9) {
		// attributable to the known two-sided defect iff both calls return
		// exactly what the shortcut formula yields
		if exact {
			u := c03Null(n1, n2, T)
			um := c03Null(n2, n1, T)
			if math.Abs(got[1].P-mwKnownTwoSided(u, twoU)) <= 1e-9 && math.Abs(sw[1].P-mwKnownTwoSided(um, 2*n1*n2-twoU)) <= 1e-9 {
				r.KnownHit("mw-two-sided-asym", "x1=%v x2=%v: two-sided P=%v but swapped P=%v", c.X1, c.X2, got[1].P, sw[1].P)
				return
			}
		}
		r.Fail("swap-two-sided", "two-sided P(x1,x2)=%v, P(x2,x1)=%v", got[1].P, sw[1].P)
	}
	// History: calls on samples of other sizes in between leave no trace.
	{
		top := math.Inf(-1)
		for _, v := range append(append([]float64{}, c.X1...), c.X2...) {
			top = math.Max(top, v)
		}
		longer := append(append([]float64{}, c.X2...), top+1, top+2.5, top+0.5)
		for ai, alt := range c01Alts {
			stats.MannWhitneyUTest(x1, longer, alt)
			stats.MannWhitneyUTest(longer[1:], x1, alt)
			res, err := stats.MannWhitneyUTest(x1, x2, alt)
			r.Trans(3)
			if err != nil || res == nil || res.U != got[ai].U || math.Float64bits(res.P) != math.Float64bits(got[ai].P) {
				r.Fail("sizes-alternated", "x1=%v x2=%v limits=(%d,%d) alt=%v: after calls on samples of other sizes the same call returns %+v, before %+v (err %v)", trunc(c.X1), trunc(c.X2), c.EL, c.TEL, alt, res, got[ai], err)
				break
			}
		}
	}
	// History: the caller negates both samples in place (same slices, same lengths).
	// Negation reverses the order of all values: U -> n1*n2 - U, the one-sided
	// p-values change places.
	for i := range x1 {
		x1[i] = -x1[i]
	}
	for i := range x2 {
		x2[i] = -x2[i]
	}
	for ai, alt := range c01Alts {
		res, err := stats.MannWhitneyUTest(x1, x2, alt)
		r.Trans(1)
		if err != nil || res == nil {
			r.Fail("rewritten-error", "after negating the samples in place: %v", err)
			return
		}
		mirror := got[2-ai]
		if res.U != float64(n1*n2)-got[ai].U || !(math.Abs(res.P-mirror.P) <= 1e-9) {
			if exact && ai != 1 {
				// one-sided exact tails are mirror images; the two-sided one goes through the known defect
			}
			if ai == 1 && exact {
				u := c03Null(n1, n2, T)
				um := c03Null(n1, n2, reverseInts(T))
				if math.Abs(got[1].P-mwKnownTwoSided(u, twoU)) <= 1e-9 && math.Abs(res.P-mwKnownTwoSided(um, 2*n1*n2-twoU)) <= 1e-9 && res.U == float64(n1*n2)-got[ai].U {
					r.KnownHit("mw-two-sided-asym", "x1=%v x2=%v: two-sided P=%v but P=%v on the negated samples", c.X1, c.X2, got[1].P, res.P)
					continue
				}
			}
			r.Fail("rewritten-in-place", "x1=%v x2=%v limits=(%d,%d) alt=%v: after negating both samples in place (U,P)=(%v,%v); before it was (%v,%v) and the mirrored alternative gave P=%v", trunc(c.X1), trunc(c.X2), c.EL, c.TEL, alt, res.U, res.P, got[ai].U, got[ai].P, mirror.P)
			return
		}
	}
}

func reverseInts(x []int) []int {
	y := make([]int, len(x))
	for i, v := range x {
		y[len(x)-1-i] = v
	}
	return y
}

func trunc(x []float64) string {
	if len(x) <= 12 {
		return fmt.Sprint(x)
	}
	return fmt.Sprintf("%v...(%d values)", x[:12], len(x))
}

// c03Perm: every permutation of x1 and of x2 gives bit-identical results.
func c03Perm(c *C03Case, r *core.Rec) {
	var base [3]*stats.MannWhitneyUTestResult
	var baseErr [3]error
	for ai, alt := range c01Alts {
		base[ai], baseErr[ai] = stats.MannWhitneyUTest(c.X1, c.X2, alt)
	}
	r.NT()
	y1 := make([]float64, len(c.X1))
	y2 := make([]float64, len(c.X2))
	enum.Permutations(len(c.X1), func(p1 []int) {
		for i, p := range p1 {
			y1[i] = c.X1[p]
		}
		enum.Permutations(len(c.X2), func(p2 []int) {
			for i, p := range p2 {
				y2[i] = c.X2[p]
			}
			for ai, alt := range c01Alts {
				res, err := stats.MannWhitneyUTest(y1, y2, alt)
				r.Trans(1)
				if err != baseErr[ai] {
					r.Fail("perm-error", "order %v %v: error %v vs %v", y1, y2, err, baseErr[ai])
					continue
				}
				if err != nil {
					continue
				}
				if res.U != base[ai].U || math.Float64bits(res.P) != math.Float64bits(base[ai].P) {
					r.Fail("perm", "order x1=%v x2=%v alt=%v: (U,P)=(%v,%v), sorted order gives (%v,%v)", y1, y2, alt, res.U, res.P, base[ai].U, base[ai].P)
				}
			}
		})
	})
}

var c03Maps = []struct {
	name string
	f    func(float64) float64
}{
	{"2x+1", func(x float64) float64 { return 2*x + 1 }},
	{"x^3", func(x float64) float64 { return x * x * x }},
	{"exp", math.Exp},
	{"-1/(x+1)", func(x float64) float64 { return -1 / (x + 1) }},
	{"x+1e9", func(x float64) float64 { return x + 1e9 }},
	{"x/1024-7", func(x float64) float64 { return x/1024 - 7 }},
	{"1+x*2^-52 (adjacent floats)", func(x float64) float64 { return 1 + x*0x1p-52 }},
	{"1e9+x*2^-23 (adjacent floats near 1e9)", func(x float64) float64 { return 1e9 + x*0x1p-23 }},
}

// c03Map: one strictly increasing map applied to all values changes nothing.
func c03Map(c *C03Case, r *core.Rec) {
	r.NT()
	for _, m := range c03Maps {
		y1 := make([]float64, len(c.X1))
		y2 := make([]float64, len(c.X2))
		for i, v := range c.X1 {
			y1[i] = m.f(v)
		}
		for i, v := range c.X2 {
			y2[i] = m.f(v)
		}
		for _, alt := range c01Alts {
			a, ea := stats.MannWhitneyUTest(c.X1, c.X2, alt)
			b, eb := stats.MannWhitneyUTest(y1, y2, alt)
			r.Trans(2)
			if ea != eb {
				r.Fail("map-error", "map %s: error %v vs %v", m.name, eb, ea)
				continue
			}
			if ea != nil {
				continue
			}
			if a.U != b.U || math.Float64bits(a.P) != math.Float64bits(b.P) {
				r.Fail("map", "map %s on x1=%v x2=%v alt=%v: (U,P)=(%v,%v) vs (%v,%v)", m.name, c.X1, c.X2, alt, b.U, b.P, a.U, a.P)
			}
		}
	}
}

// signZeros returns copies of the samples in which zeros carry both signs:
// sample 1's zeros negative and sample 2's positive when both have some,
// alternating otherwise.
func signZeros(x1, x2 []float64) (z1, z2 []float64) {
	z1, z2 = append([]float64{}, x1...), append([]float64{}, x2...)
	has := func(x []float64) bool {
		for _, v := range x {
			if v == 0 {
				return true
			}
		}
		return false
	}
	both := has(x1) && has(x2)
	k := 0
	for _, z := range [][]float64{z1, z2} {
		for i, v := range z {
			if v != 0 {
				continue
			}
			if (both && &z[0] == &z1[0]) || (!both && k%2 == 0) {
				z[i] = math.Copysign(0, -1)
			} else {
				z[i] = 0
			}
			k++
		}
	}
	return
}

// c03Alias: X1 is a series; overlapping windows of it are passed as the two
// samples. Results must be those of independent copies of the windows, bit for
// bit, and the series must be left alone.
func c03Alias(c *C03Case, r *core.Rec) {
	series := withSpare(c.X1)
	snap := snapFull(series)
	N := len(series)
	r.NT()
	for a := 1; a <= N; a++ {
		for b := 0; b < a && b < N; b++ { // windows [0:a] and [b:N] overlap on [b:a)
			w1, w2 := series[0:a], series[b:N]
			c1, c2 := append([]float64{}, w1...), append([]float64{}, w2...)
			for _, alt := range c01Alts {
				want, werr := stats.MannWhitneyUTest(c1, c2, alt)
				for dir := 0; dir < 2; dir++ {
					var got *stats.MannWhitneyUTestResult
					var err error
					if dir == 0 {
						got, err = stats.MannWhitneyUTest(w1, w2, alt)
					} else {
						got, err = stats.MannWhitneyUTest(w2, w1, alt)
						want, werr = stats.MannWhitneyUTest(c2, c1, alt)
					}
					r.Trans(2)
					if !snap.same(series) {
						r.Fail("alias-modified", "series %v modified by a call on windows [0:%d] and [%d:%d]", c.X1, a, b, N)
						return
					}
					if err != werr {
						r.Fail("alias-error", "windows [0:%d],[%d:%d] of %v: error %v, independent copies give %v", a, b, N, c.X1, err, werr)
						continue
					}
					if err != nil {
						continue
					}
					if got.U != want.U || math.Float64bits(got.P) != math.Float64bits(want.P) {
						r.Fail("alias", "overlapping windows [0:%d],[%d:%d] of %v (dir %d) alt=%v: (U,P)=(%v,%v), independent copies give (%v,%v)", a, b, N, c.X1, dir, alt, got.U, got.P, want.U, want.P)
					}
				}
			}
		}
	}
}

var c03Limits = []int{0, 3, 25, 50, 1000000}

func c03Run(c *core.Ctx) {
	r := c.R
	maxN, permN := 8, 6
	if c.Thorough() {
		maxN, permN = 10, 8
	}
	cs := &C03Case{}
	run := func() {
		r.Case("mw", cs)
		r.Try(func() { c03Check(cs, r) })
		// the check restores the limits in a defer; a panic inside the
		// library must not leak a configuration into the next case
		stats.MannWhitneyExactLimit, stats.MannWhitneyTiesExactLimit = 50, 25
	}
	// --- classes x configurations -------------------------------------------
	for N := 2; N <= maxN; N++ {
		enum.Compositions(N, 1, func(T []int) {
			for n1 := 1; n1 < N; n1++ {
				if !c.Mine() {
					continue
				}
				enum.Allocations(T, n1, func(R []int) {
					x1, x2 := c01Samples(T, R)
					// unsorted arrangement so any internal sort is visible
					x1, x2 = riffle(x1), riffle(x2)
					for _, el := range c03Limits {
						for _, tel := range c03Limits {
							cs.X1, cs.X2, cs.EL, cs.TEL, cs.Mode = x1, x2, el, tel, ""
							run()
						}
					}
					if N <= permN {
						for _, lim := range [][2]int{{50, 25}, {0, 0}} {
							cs.X1, cs.X2, cs.EL, cs.TEL, cs.Mode = x1, x2, lim[0], lim[1], "perm"
							run()
						}
					}
					for _, lim := range [][2]int{{50, 25}, {0, 0}} {
						cs.X1, cs.X2, cs.EL, cs.TEL, cs.Mode = x1, x2, lim[0], lim[1], "map"
						run()
					}
					// the lowest class is the value 0: write it with both signs (-0 == +0)
					if T[0] >= 2 {
						z1, z2 := signZeros(x1, x2)
						for _, lim := range [][2]int{{50, 25}, {0, 0}, {3, 3}} {
							cs.X1, cs.X2, cs.EL, cs.TEL, cs.Mode = z1, z2, lim[0], lim[1], ""
							run()
							if N <= permN {
								cs.Mode = "perm"
								run()
							}
						}
					}
					// aliased arguments: overlapping windows of one series
					if N >= 3 {
						series := append(append([]float64{}, x1...), x2...)
						cs.X1, cs.X2, cs.EL, cs.TEL, cs.Mode = series, nil, 50, 25, "alias"
						run()
						cs.EL, cs.TEL = 0, 0
						run()
					}
				})
			}
		})
	}
	r.Bound("classes_x_configs", fmt.Sprintf("n1+n2<=%d x 25 limit configurations", maxN))
	r.Bound("permutations", fmt.Sprintf("n1+n2<=%d, all n1!*n2! orders, exact and normal branch", permN))
	// --- error cases in every configuration -----------------------------------
	if c.First() {
		for _, el := range c03Limits {
			for _, tel := range c03Limits {
				for n1 := 0; n1 <= 8; n1++ {
					for n2 := 0; n2 <= 8; n2++ {
						for _, v := range []float64{0, -3.5, 1e9} {
							x1 := make([]float64, n1)
							x2 := make([]float64, n2)
							for i := range x1 {
								x1[i] = v
							}
							for i := range x2 {
								x2[i] = v
							}
							cs.X1, cs.X2, cs.EL, cs.TEL, cs.Mode = x1, x2, el, tel, ""
							run()
							if v == 0 && n1+n2 >= 2 {
								// all pooled values equal, written as zeros of both signs
								cs.X1, cs.X2 = signZeros(x1, x2)
								run()
								cs.X1, cs.X2 = x1, x2
							}
							if n1 == 0 || n2 == 0 {
								// empty side with non-constant other side
								for i := range x1 {
									x1[i] = float64(i)
								}
								for i := range x2 {
									x2[i] = float64(i)
								}
								run()
							}
						}
					}
				}
				// large constant data in the normal branch
				for _, n := range []int{26, 51, 100} {
					x := make([]float64, n)
					for i := range x {
						x[i] = 2.5
					}
					cs.X1, cs.X2, cs.EL, cs.TEL, cs.Mode = x, x[:n/2], el, tel, ""
					run()
				}
			}
		}
	}
	// --- size family at default limits ---------------------------------------
	sizes := []int{1, 2, 7, 25, 26, 51, 100, 300}
	if c.Thorough() {
		sizes = []int{1, 2, 7, 24, 25, 26, 49, 50, 51, 100, 300, 600}
	}
	for _, n1 := range sizes {
		for _, n2 := range sizes {
			for pi := 0; pi < c03NPatterns; pi++ {
				if !c.Mine() {
					continue
				}
				x1, x2 := c03Pattern(pi, n1, n2)
				cs.X1, cs.X2, cs.EL, cs.TEL, cs.Mode = x1, x2, 50, 25, ""
				run()
			}
		}
	}
	r.Bound("size_family", fmt.Sprintf("n1,n2 in %v x %d data patterns, default limits", sizes, c03NPatterns))
}

const c03NPatterns = 8

// c03Pattern builds structured data (deliberately unsorted).
func c03Pattern(pi, n1, n2 int) (x1, x2 []float64) {
	x1 = make([]float64, n1)
	x2 = make([]float64, n2)
	switch pi {
	case 0: // the suite's l1/l2 shape: shifted arithmetic sequences, no ties
		for i := range x1 {
			x1[i] = float64(i * 2)
		}
		for i := range x2 {
			x2[i] = float64(i*2 - 41)
		}
	case 1: // interleaved, no ties
		for i := range x1 {
			x1[i] = float64(i*2 + 1)
		}
		for i := range x2 {
			x2[i] = float64(i * 2)
		}
	case 2, 3, 4: // heavy ties: values mod m
		m := []int{2, 3, 10}[pi-2]
		for i := range x1 {
			x1[i] = float64((i * 7) % m)
		}
		for i := range x2 {
			x2[i] = float64((i*5 + 1) % m)
		}
	case 5: // one outlier
		for i := range x1 {
			x1[i] = float64(i)
		}
		for i := range x2 {
			x2[i] = float64(i) + 0.5
		}
		x1[0] = 1e6
	case 6: // all but one equal
		for i := range x1 {
			x1[i] = 3
		}
		for i := range x2 {
			x2[i] = 3
		}
		x2[len(x2)-1] = 4
	case 7: // partially tied: x2 repeats some of x1
		for i := range x1 {
			x1[i] = float64(i * 2)
		}
		for i := range x2 {
			if i < 30 {
				x2[i] = float64(i * 2)
			} else {
				x2[i] = float64(i*2 - 41)
			}
		}
	}
	// reverse x1 and rotate x2 so the inputs are unsorted
	for i, j := 0, len(x1)-1; i < j; i, j = i+1, j-1 {
		x1[i], x1[j] = x1[j], x1[i]
	}
	if len(x2) > 2 {
		k := len(x2) / 3
		x2 = append(append([]float64{}, x2[k:]...), x2[:k]...)
	}
	return
}
