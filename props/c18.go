package props

import (
	"fmt"
	"reflect"
	"sort"
	"strconv"
	"strings"

	"github.com/aclements/go-moremath/graph"
	"github.com/aclements/go-moremath/graph/graphalg"
	"github.com/aclements/go-moremath/graph/graphout"

	"verif/mc/core"
	"verif/mc/enum"
)

// C18 — Graph traversals, SCCs and subgraphs agree with their definitions on any graph.

func init() {
	core.Register(&core.Prop{
		ID:    "C18",
		Title: "Graph traversals, SCCs and subgraphs agree with their definitions on any graph",
		Run:   c18Run,
		Kinds: []core.Kind{
			core.ReplayOf("graph", c18Graph), core.ReplayOf("subgraph", c18Subgraph), core.ReplayOf("equal", c18Equal),
			core.ReplayOf("dotstring", c18DotString), core.ReplayOf("marks", c18Marks), core.ReplayOf("biggraph", c18Big),
		},
		Rule: "every digraph with self-loops on n<=4 (thorough 5) nodes x every root; every multigraph on n<=3 nodes with adjacency sequences of length<=3; structured graphs with n in {1023,1024,1025,2047,2048,2049,4096,32768,65537,100000}; " +
			"SubgraphKeep/Remove on every node subset (every order for Keep) and every edge subset of every digraph on n<=3; Equal on every ordered pair of small multigraphs; DotString on every string of length<=5 over {a,n,\\\\,\",newline,{,|,<}; " +
			"NodeMarks: explicit-state BFS over Mark/Unmark on a 14-id alphabet that straddles every storage boundary, from NewNodeMarks() and from the zero value, Test/Next evaluated in every state. " +
			"Non-trivial: graphs with >=2 nodes and >=1 edge; mark states with >=1 id.",
		Technique: "bounded-exhaustive enumeration of all small digraphs/multigraphs + explicit-state BFS over NodeMarks histories (state = model set + storage length read by reflection) against definitional references",
		Assumptions: []string{
			"SubgraphKeep is given edges between kept nodes; SubgraphRemove valid node ids",
			"lists that the statement describes as sets (SCC Out, SimplifyMulti neighbours, bigraph In) are compared as sets/multisets, not by order",
			"big graphs use an independent iterative Kosaraju partition as the SCC reference (itself compared with mutual reachability on every small graph)",
			"the bool attribute kind mentioned in a doc comment but rejected by formatAttrs is not part of the statement",
		},
	})
}

type wgraph struct {
	graph.IntGraph
}

func (g wgraph) OutWeight(i, e int) float64 { return 0.5 + float64(i) + 0.25*float64(e) }

func hashInts(h uint64, xs []int) uint64 {
	for _, v := range xs {
		h = (h ^ uint64(v+7)) * 1099511628211
	}
	return (h ^ 0xff) * 1099511628211
}

// c18Traversals checks PreOrder, PostOrder and Euler against the iterative reference.
func c18Traversals(adj [][]int, root int, g graph.Graph, r *core.Rec) {
	pre, post, events := refDFS(adj, root)
	gp := graphalg.PreOrder(g, root)
	r.Trans(1)
	if !equalInts(gp, pre) {
		r.Fail("PreOrder", "PreOrder(root %d)=%v, DFS pre-order is %v", root, clip(gp), clip(pre))
	}
	gq := graphalg.PostOrder(g, root)
	r.Trans(1)
	if !equalInts(gq, post) {
		r.Fail("PostOrder", "PostOrder(root %d)=%v, DFS post-order is %v", root, clip(gq), clip(post))
	}
	var ev []int
	graphalg.Euler{Enter: func(n int) { ev = append(ev, n) }, Exit: func(n int) { ev = append(ev, -n-1) }}.Visit(g, root)
	r.Trans(1)
	if !equalInts(ev, events) {
		r.Fail("Euler", "Euler tour events %v, want %v (n=enter, -n-1=exit)", clip(ev), clip(events))
	}
	// nil callbacks must be accepted: both, and each one alone (the other still fires)
	graphalg.Euler{}.Visit(g, root)
	var onlyEnter, onlyExit []int
	graphalg.Euler{Enter: func(n int) { onlyEnter = append(onlyEnter, n) }}.Visit(g, root)
	graphalg.Euler{Exit: func(n int) { onlyExit = append(onlyExit, n) }}.Visit(g, root)
	r.Trans(3)
	if !equalInts(onlyEnter, pre) {
		r.Fail("Euler-enter-only", "Euler with only Enter set visited %v, DFS pre-order is %v", clip(onlyEnter), clip(pre))
	}
	if !equalInts(onlyExit, post) {
		r.Fail("Euler-exit-only", "Euler with only Exit set visited %v, DFS post-order is %v", clip(onlyExit), clip(post))
	}
	// orders already returned keep their value
	if !equalInts(gp, pre) || !equalInts(gq, post) {
		r.Fail("order-retained", "PreOrder/PostOrder results changed after later traversals: %v %v", clip(gp), clip(gq))
	}
	r.Outcome(hashInts(hashInts(14695981039346656037, gp), gq))
}

func clip(x []int) string {
	if len(x) <= 24 {
		return fmt.Sprint(x)
	}
	return fmt.Sprintf("%v…(%d)", x[:24], len(x))
}

// c18SCC checks SCC with all three flag settings. comp is a reference
// partition labelling (any labels).
func c18SCC(adj [][]int, g graph.Graph, comp []int, r *core.Rec) {
	n := len(adj)
	for _, flags := range []graphalg.SCCFlags{0, graphalg.SCCSubnodeComponent, graphalg.SCCEdges, graphalg.SCCEdges | graphalg.SCCSubnodeComponent} {
		s := graphalg.SCC(g, flags)
		r.Trans(1)
		nc := s.NumNodes()
		cid := make([]int, n)
		for i := range cid {
			cid[i] = -1
		}
		total := 0
		for c := 0; c < nc; c++ {
			sub := s.Subnodes(c)
			if len(sub) == 0 {
				r.Fail("SCC-empty", "flags %d: component %d is empty", flags, c)
			}
			for _, v := range sub {
				if v < 0 || v >= n || cid[v] != -1 {
					r.Fail("SCC-partition", "flags %d: node %d appears in two components or is out of range", flags, v)
					return
				}
				cid[v] = c
				total++
			}
		}
		if total != n {
			r.Fail("SCC-partition", "flags %d: components cover %d of %d nodes", flags, total, n)
			return
		}
		// same component <=> same reference component
		rep := map[int]int{}
		for v := 0; v < n; v++ {
			if w, ok := rep[cid[v]]; ok {
				if comp[w] != comp[v] {
					r.Fail("SCC-merge", "flags %d: nodes %d and %d share component %d but do not reach each other", flags, w, v, cid[v])
					return
				}
			} else {
				rep[cid[v]] = v
			}
		}
		rrep := map[int]int{}
		for v := 0; v < n; v++ {
			if w, ok := rrep[comp[v]]; ok {
				if cid[w] != cid[v] {
					r.Fail("SCC-split", "flags %d: nodes %d and %d reach each other but are in components %d and %d", flags, w, v, cid[w], cid[v])
					return
				}
			} else {
				rrep[comp[v]] = v
			}
		}
		// reverse topological numbering
		wantOut := make([]map[int]bool, nc)
		for u, a := range adj {
			for _, v := range a {
				if cid[u] != cid[v] {
					if cid[v] > cid[u] {
						r.Fail("SCC-order", "flags %d: edge %d->%d goes from component %d to the higher component %d", flags, u, v, cid[u], cid[v])
						return
					}
					if wantOut[cid[u]] == nil {
						wantOut[cid[u]] = map[int]bool{}
					}
					wantOut[cid[u]][cid[v]] = true
				}
			}
		}
		if flags&(graphalg.SCCSubnodeComponent|graphalg.SCCEdges) != 0 {
			for v := 0; v < n; v++ {
				if s.SubnodeComponent(v) != cid[v] {
					r.Fail("SCC-SubnodeComponent", "flags %d: SubnodeComponent(%d)=%d but Subnodes places it in %d", flags, v, s.SubnodeComponent(v), cid[v])
					return
				}
			}
		}
		for c := 0; c < nc; c++ {
			out := s.Out(c)
			if flags&graphalg.SCCEdges == 0 {
				if out != nil {
					r.Fail("SCC-Out-noedges", "flags %d: Out(%d)=%v without SCCEdges", flags, c, out)
				}
				continue
			}
			seen := map[int]bool{}
			for _, o := range out {
				if seen[o] {
					r.Fail("SCC-Out-dup", "Out(%d)=%v lists a component twice", c, out)
				}
				seen[o] = true
				if !wantOut[c][o] {
					r.Fail("SCC-Out", "Out(%d)=%v lists %d but no edge leads there (or it is the component itself)", c, out, o)
				}
			}
			if len(seen) != len(wantOut[c]) {
				r.Fail("SCC-Out", "Out(%d)=%v, edges lead to %d other components", c, out, len(wantOut[c]))
			}
		}
		if flags == graphalg.SCCEdges {
			r.Outcome(hashInts(99, cid))
		}
	}
}

func c18Simplify(adj [][]int, r *core.Rec) {
	for variant := 0; variant < 2; variant++ {
		var g graph.Graph = graph.IntGraph(copyAdj(adj))
		weight := func(i, e int) float64 { return 1 }
		if variant == 1 {
			wg := wgraph{graph.IntGraph(copyAdj(adj))}
			g = wg
			weight = wg.OutWeight
		}
		s := graphalg.SimplifyMulti(g)
		r.Trans(1)
		if s.NumNodes() != len(adj) {
			r.Fail("Simplify-NumNodes", "NumNodes=%d want %d", s.NumNodes(), len(adj))
			return
		}
		for u, a := range adj {
			want := map[int]float64{}
			for e, v := range a {
				want[v] += weight(u, e)
			}
			out := s.Out(u)
			if len(out) != len(want) {
				r.Fail("Simplify-Out", "variant %d: Out(%d)=%v, distinct neighbours of %v number %d", variant, u, out, a, len(want))
				continue
			}
			for e, v := range out {
				w, ok := want[v]
				if !ok {
					r.Fail("Simplify-Out", "variant %d: Out(%d)=%v lists %d which is not a neighbour (%v)", variant, u, out, v, a)
					continue
				}
				if got := s.OutWeight(u, e); got != w {
					r.Fail("Simplify-weight", "variant %d: weight of %d->%d is %v, parallel edges sum to %v", variant, u, v, got, w)
				}
				delete(want, v)
			}
		}
	}
}

func c18BiGraph(adj [][]int, r *core.Rec) {
	g := graph.IntGraph(copyAdj(adj))
	b := graph.MakeBiGraph(g)
	r.Trans(1)
	if b.NumNodes() != len(adj) {
		r.Fail("BiGraph-NumNodes", "NumNodes=%d", b.NumNodes())
		return
	}
	want := make([][]int, len(adj))
	for u, a := range adj {
		for _, v := range a {
			want[v] = append(want[v], u)
		}
	}
	for v := range adj {
		if !equalInts(b.Out(v), adj[v]) {
			r.Fail("BiGraph-Out", "Out(%d)=%v want %v", v, b.Out(v), adj[v])
		}
		if !equalInts(sortedCopy(b.In(v)), sortedCopy(want[v])) {
			r.Fail("BiGraph-In", "In(%d)=%v, transpose has %v", v, b.In(v), want[v])
		}
	}
	if b2 := graph.MakeBiGraph(b); b2 != b {
		r.Fail("BiGraph-identity", "MakeBiGraph of a BiGraph built a new graph")
	}
}

// --- Dot ---------------------------------------------------------------------

// dotUnquote parses a quoted dot string and returns the text it denotes.
func dotUnquote(q string) (string, bool) {
	if len(q) < 2 || q[0] != '"' || q[len(q)-1] != '"' {
		return "", false
	}
	in := q[1 : len(q)-1]
	var out []byte
	for i := 0; i < len(in); i++ {
		switch in[i] {
		case '"':
			return "", false // unescaped quote terminates the string early
		case '\\':
			i++
			if i >= len(in) {
				return "", false
			}
			if in[i] == 'n' {
				out = append(out, '\n')
			} else {
				out = append(out, in[i])
			}
		default:
			out = append(out, in[i])
		}
	}
	return string(out), true
}

type dotStmt struct {
	from, to int // to = -1 for node statements
	attrs    []graphout.DotAttr
	raw      string
}

// dotScanQuoted returns the end index (exclusive) of the quoted string starting at s[i].
func dotScanQuoted(s string, i int) int {
	j := i + 1
	for j < len(s) {
		if s[j] == '\\' {
			j += 2
			continue
		}
		if s[j] == '"' {
			return j + 1
		}
		j++
	}
	return -1
}

func dotParseStmt(line string) (st dotStmt, ok bool) {
	st.raw = line
	st.to = -1
	if !strings.HasSuffix(line, ";") {
		return st, false
	}
	s := strings.TrimSuffix(line, ";")
	readNode := func() (int, bool) {
		if !strings.HasPrefix(s, "n") {
			return 0, false
		}
		j := 1
		for j < len(s) && s[j] >= '0' && s[j] <= '9' {
			j++
		}
		v, err := strconv.Atoi(s[1:j])
		if err != nil {
			return 0, false
		}
		s = s[j:]
		return v, true
	}
	var good bool
	if st.from, good = readNode(); !good {
		return st, false
	}
	if strings.HasPrefix(s, " -> ") {
		s = s[4:]
		if st.to, good = readNode(); !good {
			return st, false
		}
	}
	if s == "" {
		return st, true
	}
	if !strings.HasPrefix(s, " [") || !strings.HasSuffix(s, "]") {
		return st, false
	}
	s = s[2 : len(s)-1]
	for len(s) > 0 {
		eq := strings.IndexByte(s, '=')
		if eq < 0 {
			return st, false
		}
		name := s[:eq]
		s = s[eq+1:]
		var val string
		if strings.HasPrefix(s, "\"") {
			end := dotScanQuoted(s, 0)
			if end < 0 {
				return st, false
			}
			val = s[:end]
			s = s[end:]
		} else {
			end := strings.IndexByte(s, ',')
			if end < 0 {
				end = len(s)
			}
			val = s[:end]
			s = s[end:]
		}
		st.attrs = append(st.attrs, graphout.DotAttr{Name: name, Val: val})
		if strings.HasPrefix(s, ",") {
			s = s[1:]
		} else if s != "" {
			return st, false
		}
	}
	return st, true
}

var c18Labels = []string{"plain", "a\"b", "back\\slash", "new\nline", "{rec|ord}", "<html>", "\\n", "", "end\\"}

func c18AttrMatches(got graphout.DotAttr, want graphout.DotAttr) bool {
	if got.Name != want.Name {
		return false
	}
	raw := got.Val.(string)
	switch v := want.Val.(type) {
	case string:
		u, ok := dotUnquote(raw)
		return ok && u == v
	case graphout.DotLiteral:
		return raw == string(v)
	default:
		return raw == fmt.Sprintf("%v", v)
	}
}

func c18Dot(adj [][]int, r *core.Rec) {
	g := graph.IntGraph(copyAdj(adj))
	nodeAttrs := func(i int) []graphout.DotAttr {
		switch i % 3 {
		case 0:
			return nil
		case 1:
			return []graphout.DotAttr{{Name: "shape", Val: graphout.DotLiteral("box")}, {Name: "tip", Val: c18Labels[(i*5+1)%len(c18Labels)]}, {Name: "w", Val: 2.5}}
		}
		return []graphout.DotAttr{{Name: "label", Val: c18Labels[(i+3)%len(c18Labels)]}, {Name: "k", Val: uint(i)}}
	}
	edgeAttrs := func(i, e int) []graphout.DotAttr {
		if (i+e)%2 == 0 {
			return nil
		}
		return []graphout.DotAttr{{Name: "weight", Val: i*10 + e}, {Name: "label", Val: c18Labels[(i+e)%len(c18Labels)]}}
	}
	label := func(i int) string { return c18Labels[i%len(c18Labels)] }
	// variant 2: the callbacks hand out prefixes of ONE table with spare capacity behind
	// them (the caller's storage: the library may read it, not write into it)
	mkTable := func() []graphout.DotAttr {
		return []graphout.DotAttr{{Name: "shape", Val: graphout.DotLiteral("box")}, {Name: "tip", Val: c18Labels[2]}, {Name: "w", Val: 2.5}, {Name: "k", Val: 7}, {Name: "z", Val: "spare"}}
	}
	libTable, refTable := mkTable(), mkTable()
	libNodeAttrs, libEdgeAttrs := nodeAttrs, edgeAttrs
	for variant := 0; variant < 3; variant++ {
		d := graphout.Dot{}
		if variant == 1 {
			d = graphout.Dot{Name: "g \"1\"", Label: label, NodeAttrs: nodeAttrs, EdgeAttrs: edgeAttrs}
		}
		if variant == 2 {
			libNodeAttrs = func(i int) []graphout.DotAttr { return libTable[: 1+i%3 : 4] }
			libEdgeAttrs = func(i, e int) []graphout.DotAttr { return libTable[: (i+e)%3 : 3] }
			nodeAttrs = func(i int) []graphout.DotAttr { return refTable[:1+i%3] }
			edgeAttrs = func(i, e int) []graphout.DotAttr { return refTable[:(i+e)%3] }
			d = graphout.Dot{Name: "g2", Label: label, NodeAttrs: libNodeAttrs, EdgeAttrs: libEdgeAttrs}
		}
		out := d.Sprint(g)
		if variant == 2 {
			for i := range libTable {
				if libTable[i] != refTable[i] {
					r.Fail("Dot-attrs-modified", "Dot.Sprint wrote into the attribute table returned by NodeAttrs/EdgeAttrs: entry %d is now %+v, was %+v", i, libTable[i], refTable[i])
					break
				}
			}
		}
		r.Trans(1)
		lines := strings.Split(out, ";\n")
		// first chunk holds the header line too
		if !strings.HasPrefix(out, "digraph ") || !strings.HasSuffix(out, "}\n") {
			r.Fail("Dot-frame", "variant %d: output does not start with 'digraph' and end with '}': %q", variant, out)
			return
		}
		hdrEnd := strings.Index(out, " {\n")
		if hdrEnd < 0 {
			r.Fail("Dot-frame", "variant %d: no header line: %q", variant, out)
			return
		}
		name, ok := dotUnquote(out[len("digraph "):hdrEnd])
		if !ok || name != d.Name {
			r.Fail("Dot-name", "variant %d: graph name %q does not unquote to %q", variant, out[len("digraph "):hdrEnd], d.Name)
		}
		body := out[hdrEnd+3 : len(out)-2]
		_ = lines
		var stmts []dotStmt
		// split into statements at ";\n" that are outside quoted strings
		start, i := 0, 0
		for i < len(body) {
			switch body[i] {
			case '"':
				end := dotScanQuoted(body, i)
				if end < 0 {
					r.Fail("Dot-quote", "variant %d: unterminated string in %q", variant, body)
					return
				}
				i = end
				continue
			case ';':
				if i+1 < len(body) && body[i+1] == '\n' {
					st, ok := dotParseStmt(body[start : i+1])
					if !ok {
						r.Fail("Dot-syntax", "variant %d: cannot parse statement %q", variant, body[start:i+1])
						return
					}
					stmts = append(stmts, st)
					i += 2
					start = i
					continue
				}
			}
			i++
		}
		if start != len(body) {
			r.Fail("Dot-syntax", "variant %d: trailing text %q", variant, body[start:])
			return
		}
		// expected statements in order
		k := 0
		next := func() *dotStmt {
			if k >= len(stmts) {
				return nil
			}
			k++
			return &stmts[k-1]
		}
		for u := range adj {
			st := next()
			if st == nil || st.from != u || st.to != -1 {
				r.Fail("Dot-node", "variant %d: expected the statement for node %d, got %+v", variant, u, st)
				return
			}
			var want []graphout.DotAttr
			haveLabel := false
			if variant >= 1 {
				want = append(want, nodeAttrs(u)...)
				for _, a := range want {
					if a.Name == "label" {
						haveLabel = true
					}
				}
			}
			if !haveLabel {
				l := strconv.Itoa(u)
				if variant >= 1 {
					l = label(u)
				}
				want = append(want, graphout.DotAttr{Name: "label", Val: l})
			}
			if len(st.attrs) != len(want) {
				r.Fail("Dot-node-attrs", "variant %d: node %d statement %q has %d attributes, want %d", variant, u, st.raw, len(st.attrs), len(want))
				return
			}
			for ai := range want {
				if !c18AttrMatches(st.attrs[ai], want[ai]) {
					r.Fail("Dot-node-attrs", "variant %d: node %d statement %q: attribute %d does not denote %v=%#v", variant, u, st.raw, ai, want[ai].Name, want[ai].Val)
				}
			}
			for e, v := range adj[u] {
				st := next()
				if st == nil || st.from != u || st.to != v {
					r.Fail("Dot-edge", "variant %d: expected the statement for edge %d->%d, got %+v", variant, u, v, st)
					return
				}
				var want []graphout.DotAttr
				if variant >= 1 {
					want = append([]graphout.DotAttr{}, edgeAttrs(u, e)...)
				}
				if len(st.attrs) != len(want) {
					r.Fail("Dot-edge-attrs", "variant %d: edge statement %q has %d attributes, want %d", variant, st.raw, len(st.attrs), len(want))
					return
				}
				for ai := range want {
					if !c18AttrMatches(st.attrs[ai], want[ai]) {
						r.Fail("Dot-edge-attrs", "variant %d: edge statement %q: attribute %d does not denote %v=%#v", variant, st.raw, ai, want[ai].Name, want[ai].Val)
					}
				}
			}
		}
		if k != len(stmts) {
			r.Fail("Dot-extra", "variant %d: %d statements beyond the nodes and edges of the graph", variant, len(stmts)-k)
		}
	}
}

func c18Graph(c *GCase, r *core.Rec) {
	adj := c.Adj
	edges := 0
	for _, a := range adj {
		edges += len(a)
	}
	if len(adj) >= 2 && edges >= 1 {
		r.NT()
	}
	g := c.g()
	snapshot := copyAdj(adj)
	c18Traversals(adj, c.Root, g, r)
	if c.Root == 0 {
		// root-independent checks once per graph
		cl := refClosure(adj)
		comp := make([]int, len(adj))
		for v := range adj {
			comp[v] = -1
		}
		nc := 0
		for v := range adj {
			if comp[v] >= 0 {
				continue
			}
			for w := range adj {
				if cl[v][w] && cl[w][v] {
					comp[w] = nc
				}
			}
			nc++
		}
		// the Kosaraju reference used for big graphs must induce the same partition
		ks := refSCCKosaraju(adj)
		for v := range adj {
			for w := range adj {
				if (comp[v] == comp[w]) != (ks[v] == ks[w]) {
					panic("reference SCC algorithms disagree")
				}
			}
		}
		r.Valid(1)
		c18SCC(adj, g, comp, r)
		c18Simplify(adj, r)
		c18BiGraph(adj, r)
		if !c.Light {
			c18Dot(adj, r)
		}
	}
	if !equalAdj([][]int(g), snapshot) {
		r.Fail("graph-modified", "the graph was modified by a read-only operation")
	}
	// History: the caller edits the graph in place (every adjacency list reversed, same
	// backing arrays) and asks again: the answers are those of the graph as it is now.
	rev := copyAdj(adj)
	changed := false
	for v := range g {
		for i, j := 0, len(g[v])-1; i < j; i, j = i+1, j-1 {
			g[v][i], g[v][j] = g[v][j], g[v][i]
			rev[v][i], rev[v][j] = rev[v][j], rev[v][i]
			if g[v][i] != g[v][j] {
				changed = true
			}
		}
	}
	if changed {
		pre, post, _ := refDFS(rev, c.Root)
		if gp := graphalg.PreOrder(g, c.Root); !equalInts(gp, pre) {
			r.Fail("edited-in-place", "after reversing every adjacency list in place PreOrder(root %d)=%v, DFS pre-order of %v is %v", c.Root, clip(gp), rev, clip(pre))
		}
		if gq := graphalg.PostOrder(g, c.Root); !equalInts(gq, post) {
			r.Fail("edited-in-place", "after reversing every adjacency list in place PostOrder(root %d)=%v, DFS post-order of %v is %v", c.Root, clip(gq), rev, clip(post))
		}
		r.Trans(2)
	}
}

// --- subgraphs -----------------------------------------------------------------

type C18Sub struct {
	Adj    [][]int  `json:"adj"`
	Nodes  []int    `json:"nodes"`
	Edges  [][2]int `json:"edges"` // (node, edge index) in the underlying graph
	Remove bool     `json:"remove"`
}

func c18Subgraph(c *C18Sub, r *core.Rec) {
	g := graph.IntGraph(copyAdj(c.Adj))
	edges := make([]graph.Edge, len(c.Edges))
	for i, e := range c.Edges {
		edges[i] = graph.Edge{Node: e[0], Edge: e[1]}
	}
	if len(c.Nodes) > 0 || len(c.Edges) > 0 {
		r.NT()
	}
	nodeName := func(n int) interface{} { return n*100 + 7 }
	edgeName := func(n, e int) interface{} { return [2]int{n, e} }
	var s graph.Subgraph
	var wantNodes []int      // new node -> old node
	var wantEdges [][][2]int // new node -> list of (old node, old edge idx) in required order (Remove) or any order (Keep)
	if c.Remove {
		s = graph.SubgraphRemove(g, append([]int{}, c.Nodes...), edges)
		rm := map[int]bool{}
		for _, n := range c.Nodes {
			rm[n] = true
		}
		rmE := map[[2]int]bool{}
		for _, e := range c.Edges {
			rmE[e] = true
		}
		for n := range c.Adj {
			if rm[n] {
				continue
			}
			wantNodes = append(wantNodes, n)
			var es [][2]int
			for e, v := range c.Adj[n] {
				if !rm[v] && !rmE[[2]int{n, e}] {
					es = append(es, [2]int{n, e})
				}
			}
			wantEdges = append(wantEdges, es)
		}
	} else {
		s = graph.SubgraphKeep(g, append([]int{}, c.Nodes...), edges)
		wantNodes = c.Nodes
		wantEdges = make([][][2]int, len(c.Nodes))
		pos := map[int]int{}
		for i, n := range c.Nodes {
			pos[n] = i
		}
		for _, e := range c.Edges {
			wantEdges[pos[e[0]]] = append(wantEdges[pos[e[0]]], e)
		}
	}
	r.Trans(1)
	if s.Underlying() == nil || !equalAdj([][]int(s.Underlying().(graph.IntGraph)), c.Adj) {
		r.Fail("Sub-Underlying", "Underlying() is not the original graph")
	}
	if s.NumNodes() != len(wantNodes) {
		r.Fail("Sub-NumNodes", "NumNodes=%d want %d", s.NumNodes(), len(wantNodes))
		return
	}
	oldToNew := map[int]int{}
	for i, n := range wantNodes {
		oldToNew[n] = i
	}
	nm := s.NodeMap(nodeName)
	em := s.EdgeMap(edgeName)
	for i, old := range wantNodes {
		if got := nm(i); got != nodeName(old) {
			r.Fail("Sub-NodeMap", "NodeMap(%d) names %v, want underlying node %d", i, got, old)
		}
		out := s.Out(i)
		if len(out) != len(wantEdges[i]) {
			r.Fail("Sub-Out", "new node %d (old %d): Out=%v, want %d edges %v", i, old, out, len(wantEdges[i]), wantEdges[i])
			continue
		}
		remaining := map[[2]int]int{}
		for _, e := range wantEdges[i] {
			remaining[e]++
		}
		for e, v := range out {
			id, ok := em(i, e).([2]int)
			if !ok {
				r.Fail("Sub-EdgeMap", "EdgeMap(%d,%d) did not return the underlying map's value", i, e)
				continue
			}
			if remaining[id] == 0 {
				r.Fail("Sub-EdgeMap", "new edge (%d,%d) maps to underlying edge %v which was not requested (or is listed twice)", i, e, id)
				continue
			}
			remaining[id]--
			if id[0] != old {
				r.Fail("Sub-EdgeMap", "new edge (%d,%d) maps to an edge of underlying node %d, want %d", i, e, id[0], old)
				continue
			}
			target := c.Adj[id[0]][id[1]]
			if nv, ok := oldToNew[target]; !ok || nv != v {
				r.Fail("Sub-Out", "new edge (%d,%d) points to new node %d but underlying edge %v points to old node %d", i, e, v, id, target)
			}
			if c.Remove && id != wantEdges[i][e] {
				r.Fail("Sub-order", "SubgraphRemove changed the edge order of node %d", old)
			}
		}
	}
	if !equalAdj([][]int(g), c.Adj) {
		r.Fail("Sub-modified", "underlying graph modified")
	}
}

// --- Equal -----------------------------------------------------------------------

type C18Eq struct {
	A [][]int `json:"a"`
	B [][]int `json:"b"`
}

func c18Equal(c *C18Eq, r *core.Rec) {
	a, b := graph.IntGraph(copyAdj(c.A)), graph.IntGraph(copyAdj(c.B))
	want := len(c.A) == len(c.B)
	if want {
		for i := range c.A {
			if !equalInts(sortedCopy(c.A[i]), sortedCopy(c.B[i])) {
				want = false
			}
		}
	}
	r.NT()
	got := graph.Equal(a, b)
	r.Trans(1)
	if got != want {
		r.Fail("Equal", "Equal(%v, %v)=%v, multiset comparison gives %v", c.A, c.B, got, want)
	}
	if !equalAdj([][]int(a), c.A) || !equalAdj([][]int(b), c.B) {
		r.Fail("Equal-modified", "Equal modified an argument: %v %v -> %v %v", c.A, c.B, a, b)
	}
}

// --- DotString -------------------------------------------------------------------

// C18Str holds the string as bytes (base64 in JSON): Go strings are byte
// sequences and JSON strings would not survive invalid UTF-8.
type C18Str struct {
	B []byte `json:"bytes"`
	S string `json:"-"`
}

func c18DotString(c *C18Str, r *core.Rec) {
	c.S = string(c.B)
	q := graphout.DotString(c.S)
	r.Trans(1)
	if len(c.S) > 0 {
		r.NT()
	}
	u, ok := dotUnquote(q)
	if !ok || u != c.S {
		r.Fail("DotString", "DotString(%q)=%s which unescapes to %q (ok=%v)", c.S, q, u, ok)
	}
	if end := dotScanQuoted(q, 0); end != len(q) {
		r.Fail("DotString-terminates", "DotString(%q)=%s: a dot lexer ends the string at offset %d of %d", c.S, q, end, len(q))
	}
	if strings.Contains(q, "\n") {
		r.Fail("DotString-newline", "DotString(%q) contains a raw newline", c.S)
	}
}

// --- NodeMarks (E-hist) -------------------------------------------------------------

type C18MarkOp struct {
	Op string `json:"op"` // mark, unmark
	ID int    `json:"id"`
}

type C18MarksCase struct {
	Zero bool        `json:"from_zero_value"`
	Ops  []C18MarkOp `json:"ops"`
}

var c18IDs = []int{0, 1, 31, 32, 33, 63, 64, 1023, 1024, 1025, 2047, 2048, 4096, 70000}

func marksLen(m *graphalg.NodeMarks) int {
	v := reflect.ValueOf(m).Elem()
	for i := 0; i < v.NumField(); i++ {
		if v.Field(i).Kind() == reflect.Slice {
			return v.Field(i).Len()
		}
	}
	return -1
}

// c18MarksObserve compares every observer with the model set.
func c18MarksObserve(m *graphalg.NodeMarks, set map[int]bool, r *core.Rec, where string) {
	probe := append([]int{}, c18IDs...)
	probe = append(probe, 2, 30, 65, 1022, 1026, 4095, 4097, 69999, 70001, 100000)
	for _, id := range probe {
		if got := m.Test(id); got != set[id] {
			r.Fail("marks-Test", "%s: Test(%d)=%v, model says %v", where, id, got, set[id])
		}
	}
	if m.Test(-1) || m.Test(-33) {
		r.Fail("marks-Test-negative", "%s: Test of a negative id is true", where)
	}
	var sorted []int
	for id := range set {
		sorted = append(sorted, id)
	}
	sort.Ints(sorted)
	nextAfter := func(i int) int {
		for _, id := range sorted {
			if id > i {
				return id
			}
		}
		return -1
	}
	for _, i := range append([]int{-5, -1}, probe...) {
		if got, want := m.Next(i), nextAfter(i); got != want {
			r.Fail("marks-Next", "%s: Next(%d)=%d, model says %d (set %v)", where, i, got, want, sorted)
		}
	}
	// the documented iteration idiom enumerates exactly the set
	var iter []int
	for i := m.Next(-1); i >= 0 && len(iter) <= len(sorted)+1; i = m.Next(i) {
		iter = append(iter, i)
	}
	if !equalInts(iter, sorted) {
		r.Fail("marks-iterate", "%s: iteration yields %v, set is %v", where, iter, sorted)
	}
}

func c18NewMarks(zero bool) *graphalg.NodeMarks {
	if zero {
		return &graphalg.NodeMarks{}
	}
	return graphalg.NewNodeMarks()
}

func c18Marks(c *C18MarksCase, r *core.Rec) {
	m := c18NewMarks(c.Zero)
	set := map[int]bool{}
	c18MarksObserve(m, set, r, "initial")
	for k, op := range c.Ops {
		switch op.Op {
		case "mark":
			m.Mark(op.ID)
			set[op.ID] = true
		case "unmark":
			m.Unmark(op.ID)
			delete(set, op.ID)
		}
		c18MarksObserve(m, set, r, fmt.Sprintf("after op %d (%s %d)", k, op.Op, op.ID))
	}
}

// c18MarksBFS explores all histories to the given depth (0 = until closure).
func c18MarksBFS(r *core.Rec, zero bool, depth int) int64 {
	type node struct {
		path []uint8
	}
	nops := 2 * len(c18IDs)
	opOf := func(o uint8) C18MarkOp {
		if int(o) < len(c18IDs) {
			return C18MarkOp{"mark", c18IDs[o]}
		}
		return C18MarkOp{"unmark", c18IDs[int(o)-len(c18IDs)]}
	}
	build := func(path []uint8) (*graphalg.NodeMarks, uint32, *C18MarksCase) {
		cs := &C18MarksCase{Zero: zero}
		m := c18NewMarks(zero)
		var set uint32
		for _, o := range path {
			op := opOf(o)
			cs.Ops = append(cs.Ops, op)
			if op.Op == "mark" {
				m.Mark(op.ID)
				set |= 1 << (o % uint8(len(c18IDs)))
			} else {
				m.Unmark(op.ID)
				set &^= 1 << (o % uint8(len(c18IDs)))
			}
		}
		return m, set, cs
	}
	// state key: the model set plus EVERY field of the implementation object read by
	// reflection (storage, and whatever else a change to the library may add)
	type key struct {
		set  uint32
		impl string
	}
	seen := map[key]bool{}
	m0, _, _ := build(nil)
	seen[key{0, core.DeepKey(m0)}] = true
	frontier := []node{{nil}}
	r.Case("marks", &C18MarksCase{Zero: zero})
	r.Try(func() { c18MarksObserve(m0, map[int]bool{}, r, "initial") })
	for d := 0; len(frontier) > 0 && (depth == 0 || d < depth); d++ {
		var next []node
		for _, nd := range frontier {
			for o := 0; o < nops; o++ {
				path := append(append(make([]uint8, 0, len(nd.path)+1), nd.path...), uint8(o))
				var m *graphalg.NodeMarks
				var set uint32
				var cs *C18MarksCase
				r.Trans(1)
				if p := core.Catch(func() { m, set, cs = build(path) }); p != nil {
					_, _, cs = func() (a *graphalg.NodeMarks, b uint32, c *C18MarksCase) {
						c = &C18MarksCase{Zero: zero}
						for _, o := range path {
							c.Ops = append(c.Ops, opOf(o))
						}
						return
					}()
					r.Case("marks", cs)
					// re-execute through the replayable check so the signature is the canonical one
					r.Try(func() { c18Marks(cs, r) })
					continue
				}
				// observe after EVERY transition (a state reached again by another path may
				// differ in something the key does not see), de-duplicate only the frontier
				r.Case("marks", cs)
				if set != 0 {
					r.NT()
				}
				model := map[int]bool{}
				for i, id := range c18IDs {
					if set>>uint(i)&1 != 0 {
						model[id] = true
					}
				}
				r.Try(func() { c18MarksObserve(m, model, r, "state") })
				k := key{set, core.DeepKey(m)}
				if seen[k] {
					continue
				}
				seen[k] = true
				r.Outcome(uint64(set)<<20 | uint64(marksLen(m)))
				next = append(next, node{path})
			}
		}
		frontier = next
	}
	return int64(len(seen))
}

// --- big structured graphs ----------------------------------------------------------

type C18BigCase struct {
	N      int    `json:"n"`
	Family string `json:"family"`
}

func c18Big(c *C18BigCase, r *core.Rec) {
	for _, f := range bigFamilies(c.N) {
		if f.name != c.Family {
			continue
		}
		r.NT()
		g := graph.IntGraph(f.adj)
		c18Traversals(f.adj, f.root, g, r)
		comp := refSCCKosaraju(f.adj)
		c18SCC(f.adj, g, comp, r)
		// marks across the growth boundaries through the traversal's own use:
		// mark every node, unmark the odd ones, iterate
		m := graphalg.NewNodeMarks()
		for i := 0; i < c.N; i++ {
			m.Mark(i)
		}
		for i := 1; i < c.N; i += 2 {
			m.Unmark(i)
		}
		cnt, last := 0, -1
		for i := m.Next(-1); i >= 0; i = m.Next(i) {
			if i%2 != 0 || i <= last || i >= c.N {
				r.Fail("marks-big", "iteration over the even nodes below %d yields %d after %d", c.N, i, last)
				break
			}
			last = i
			cnt++
		}
		if cnt != (c.N+1)/2 {
			r.Fail("marks-big", "iteration yields %d marks, want %d", cnt, (c.N+1)/2)
		}
	}
}

// --- driver ------------------------------------------------------------------------------

func c18Run(c *core.Ctx) {
	r := c.R
	maxN := 4
	if c.Thorough() {
		maxN = 5
	}
	gc := &GCase{}
	runG := func(adj [][]int, root int) {
		gc.Adj, gc.Root = adj, root
		r.Case("graph", gc)
		r.Try(func() { c18Graph(gc, r) })
	}
	for n := 1; n <= maxN; n++ {
		total := uint64(1) << uint(n*n)
		for code := uint64(0); code < total; code++ {
			if !c.Mine() {
				continue
			}
			adj := enum.Digraph(n, code)
			for root := 0; root < n; root++ {
				runG(adj, root)
			}
		}
	}
	r.Bound("digraphs", fmt.Sprintf("all digraphs with self-loops on n<=%d nodes x every root", maxN))
	if maxN < 5 {
		// quick: the complete family of 5-node graphs with an entry node (no edge into node 0)
		const n = 5
		for code := uint64(0); code < 1<<20; code++ {
			if !c.Mine() {
				continue
			}
			var full uint64
			b := uint(0)
			for u := 0; u < n; u++ {
				for v := 1; v < n; v++ {
					if code>>b&1 != 0 {
						full |= 1 << uint(u*n+v)
					}
					b++
				}
			}
			gc.Adj, gc.Root, gc.Light = enum.Digraph(n, full), 0, true
			r.Case("graph", gc)
			r.Try(func() { c18Graph(gc, r) })
		}
		gc.Light = false
		r.Bound("entry_graphs_5", "all 2^20 digraphs on 5 nodes in which node 0 has no incoming edge, root 0")
	}
	var multi [][][]int // multigraphs n<=2 for Equal
	for n := 1; n <= 3; n++ {
		var lists [][]int
		for l := 0; l <= 3; l++ {
			enum.Sequences(l, n, func(s []int) { lists = append(lists, append([]int{}, s...)) })
		}
		enum.Sequences(n, len(lists), func(pick []int) {
			adj := make([][]int, n)
			for i, p := range pick {
				adj[i] = lists[p]
			}
			if n <= 2 {
				multi = append(multi, adj)
			}
			if !c.Mine() {
				return
			}
			for root := 0; root < n; root++ {
				runG(adj, root)
			}
		})
	}
	r.Bound("multigraphs", "all multigraphs on n<=3 nodes with adjacency sequences of length<=3 x every root")
	// dense multigraphs up to 60 nodes: circulants whose stride lists have many distinct
	// targets followed by repeats of early and late ones (parallel edges far apart in the list)
	for _, n := range []int{12, 16, 33, 60} {
		for _, distinct := range []int{3, 8, 9, 10, 11} {
			for rep := 0; rep < 4; rep++ {
				if !c.Mine() {
					continue
				}
				var st []int
				for k := 0; k < distinct && k < n; k++ {
					st = append(st, (k*5+1)%n)
				}
				// repeats: first, last, middle, and a self loop
				st = append(st, st[rep%len(st)], st[len(st)-1-rep%len(st)], st[len(st)/2], 0, st[0])
				adj := circulant(n, st)
				for _, root := range []int{0, n - 1} {
					gc.Adj, gc.Root, gc.Light = adj, root, true
					r.Case("graph", gc)
					r.Try(func() { c18Graph(gc, r) })
				}
				gc.Light = false
			}
		}
	}
	r.Bound("dense_multigraphs", "circulant multigraphs on 12/16/33/60 nodes with 3..11 distinct successors per node followed by repeated ones")
	// Subgraphs on every digraph n<=3
	sc := &C18Sub{}
	for n := 1; n <= 3; n++ {
		total := uint64(1) << uint(n*n)
		for code := uint64(0); code < total; code++ {
			if !c.Mine() {
				continue
			}
			adj := enum.Digraph(n, code)
			if n == 2 {
				// parallel edges too
				adj = copyAdj(adj)
				adj[0] = append(adj[0], adj[0]...)
			}
			// all edges
			var all [][2]int
			for u, a := range adj {
				for e := range a {
					all = append(all, [2]int{u, e})
				}
			}
			enum.Subsets(n, func(nm uint) {
				var nodes []int
				in := map[int]bool{}
				for v := 0; v < n; v++ {
					if nm>>uint(v)&1 != 0 {
						nodes = append(nodes, v)
						in[v] = true
					}
				}
				// Remove: any edge subset
				enum.Subsets(len(all), func(em uint) {
					var es [][2]int
					for i, e := range all {
						if em>>uint(i)&1 != 0 {
							es = append(es, e)
						}
					}
					sc.Adj, sc.Nodes, sc.Edges, sc.Remove = adj, nodes, es, true
					r.Case("subgraph", sc)
					r.Try(func() { c18Subgraph(sc, r) })
				})
				// Keep: edges among kept nodes, every node order, edge list ascending and reversed
				var inner [][2]int
				for _, e := range all {
					if in[e[0]] && in[adj[e[0]][e[1]]] {
						inner = append(inner, e)
					}
				}
				enum.Permutations(len(nodes), func(p []int) {
					pn := make([]int, len(nodes))
					for i, k := range p {
						pn[i] = nodes[k]
					}
					enum.Subsets(len(inner), func(em uint) {
						var es [][2]int
						for i, e := range inner {
							if em>>uint(i)&1 != 0 {
								es = append(es, e)
							}
						}
						for rev := 0; rev < 2; rev++ {
							if rev == 1 {
								if len(es) < 2 {
									break
								}
								for i, j := 0, len(es)-1; i < j; i, j = i+1, j-1 {
									es[i], es[j] = es[j], es[i]
								}
							}
							sc.Adj, sc.Nodes, sc.Edges, sc.Remove = adj, pn, es, false
							r.Case("subgraph", sc)
							r.Try(func() { c18Subgraph(sc, r) })
						}
					})
				})
			})
		}
	}
	r.Bound("subgraphs", "every digraph on n<=3 (n=2 with doubled edges): every node subset x every edge subset (Remove); every node order x every inner edge subset x 2 edge-list orders (Keep)")
	// Equal on every ordered pair of multigraphs n<=2 (+ all digraph pairs n=3 in thorough)
	ec := &C18Eq{}
	for _, a := range multi {
		if !c.Mine() {
			continue
		}
		for _, b := range multi {
			ec.A, ec.B = a, b
			r.Case("equal", ec)
			r.Try(func() { c18Equal(ec, r) })
		}
	}
	if c.Thorough() {
		for ca := uint64(0); ca < 512; ca++ {
			if !c.Mine() {
				continue
			}
			for cb := uint64(0); cb < 512; cb++ {
				a, b := enum.Digraph(3, ca), enum.Digraph(3, cb)
				// present b's lists in descending order so equal graphs differ in order
				for i := range b {
					sort.Sort(sort.Reverse(sort.IntSlice(b[i])))
				}
				ec.A, ec.B = a, b
				r.Case("equal", ec)
				r.Try(func() { c18Equal(ec, r) })
			}
		}
	}
	r.Bound("equal", "every ordered pair of multigraphs on n<=2 nodes with lists<=3 (thorough: + every pair of digraphs on 3 nodes)")
	// DotString on every short string
	// ASCII specials, plus bytes >= 0x80: a valid two-byte UTF-8 sequence (c3 a9),
	// a lone continuation byte, a Latin-1 byte and 0xff (strings are byte sequences)
	alpha := []byte{'a', 'n', '\\', '"', '\n', '{', '|', '<', '}', '>', 0xc3, 0xa9, 0xe9, 0xff}
	maxLen := 4
	strc := &C18Str{}
	for l := 0; l <= maxLen; l++ {
		enum.Sequences(l, len(alpha), func(s []int) {
			if !c.Mine() {
				return
			}
			b := make([]byte, l)
			for i, k := range s {
				b[i] = alpha[k]
			}
			strc.B = b
			r.Case("dotstring", strc)
			r.Try(func() { c18DotString(strc, r) })
		})
	}
	r.Bound("dotstring", fmt.Sprintf("every byte string of length<=%d over 14 bytes (ASCII specials and bytes >=0x80)", maxLen))
	// NodeMarks BFS
	depth := 4
	if c.Thorough() {
		depth = 0
	}
	for _, zero := range []bool{false, true} {
		if !c.Mine() {
			continue
		}
		r.State(c18MarksBFS(r, zero, depth))
	}
	if depth == 0 {
		r.Bound("marks", "complete reachable state space of Mark/Unmark over the 14-id alphabet (closure), both initial states")
	} else {
		r.Bound("marks", fmt.Sprintf("all Mark/Unmark histories of depth<=%d over the 14-id alphabet, both initial states", depth))
	}
	// big structured graphs
	sizes := []int{1023, 1024, 1025, 2048, 4096, 32768}
	if c.Thorough() {
		sizes = []int{1023, 1024, 1025, 2047, 2048, 2049, 4096, 32768, 65537, 100000}
	}
	bc := &C18BigCase{}
	for _, n := range sizes {
		for _, f := range bigFamilies(n) {
			if !c.Mine() {
				continue
			}
			bc.N, bc.Family = n, f.name
			r.Case("biggraph", bc)
			r.Try(func() { c18Big(bc, r) })
		}
	}
	r.Bound("big_graphs", fmt.Sprintf("n in %v x 7 structured families", sizes))
}
