package props

import (
	"fmt"
	"math"
	"math/big"
	"sort"

	"github.com/aclements/go-moremath/scale"

	"verif/mc/core"
	"verif/mc/ref"
)

// C16 — Linear and Log scales map the domain onto [0,1] invertibly; QQ composes them.

type C16Case struct {
	Kind string  `json:"kind"` // linear, log, newlog, qq
	Min  float64 `json:"min"`
	Max  float64 `json:"max"`
	Base int     `json:"base,omitempty"`
	// for qq: destination scale
	DKind string  `json:"dest_kind,omitempty"`
	DMin  float64 `json:"dest_min,omitempty"`
	DMax  float64 `json:"dest_max,omitempty"`
}

func init() {
	core.Register(&core.Prop{
		ID:    "C16",
		Title: "Linear and Log scales map the domain onto [0,1] invertibly; QQ composes them",
		Run:   c16Run,
		Kinds: []core.Kind{core.ReplayOf("scale", c16Check)},
		Rule: "Linear: every ordered pair (Min,Max) over +-{1e-12,1e-3,1,2.5,1e3,1e12} u {0} (increasing, decreasing, degenerate, negative); Log: every ordered pair of equal sign; x at Min, Max, 17 interior points and outside to 100 widths; y in {-5,-1,0,0.25,0.5,1,2,5}; " +
			"Clamp off -> on -> off -> on as explicit transitions; NewLog on every (min,max,base) with base in {-1,0,1,2,3,10}; QQ for all four Src/Dest pairings. Oracle: exact rational affine map (Linear), 320-bit logarithms (Log). Non-trivial: Min != Max.",
		Technique:   "bounded-exhaustive domain x argument x configuration enumeration of the real scales against exact rational / 320-bit references",
		Assumptions: []string{"finite arguments (the quantifier's range)", "round trip Unmap(Map(x)) within 8 eps (|x|+|Min|+|Max|) (Linear) / 1e-12 relative (Log)", "NewLog may return the bounds in either order (it normalises min>max)"},
	})
}

var c16Mags = []float64{1e-12, 1e-3, 1, 2.5, 1e3, 1e12}

func c16LinearXs(min, max float64) []float64 {
	w := max - min
	xs := []float64{min, max}
	for i := 1; i <= 17; i++ {
		xs = append(xs, min+w*float64(i)/18)
	}
	for _, t := range []float64{-100, -10, -1, -0.001, 1.001, 2, 10, 100} {
		xs = append(xs, min+w*t)
	}
	sort.Float64s(xs)
	out := xs[:0]
	for i, x := range xs {
		if i == 0 || x != xs[i-1] {
			out = append(out, x)
		}
	}
	return out
}

var c16Ys = []float64{-5, -1, 0, 0.25, 0.5, 1, 2, 5}

// c16Linear checks the Linear scale with the domain of the case, built in several
// ways: Map/Unmap depend on Min, Max and Clamp only.
func c16Linear(c *C16Case, r *core.Rec) {
	c16LinearOne(c, scale.Linear{Min: c.Min, Max: c.Max}, true, r)
	for _, base := range []int{2, 7, 10} {
		c16LinearOne(c, scale.Linear{Min: c.Min, Max: c.Max, Base: base}, false, r)
	}
	// used and niced on another domain, then re-pointed at this one
	l := scale.Linear{Min: 0.3, Max: 47}
	l.Map(10)
	l.Nice(scale.TickOptions{Max: 5})
	l.Ticks(scale.TickOptions{Max: 5})
	l.Unmap(0.25)
	l.Min, l.Max = c.Min, c.Max
	c16LinearOne(c, l, false, r)
}

func c16LinearOne(c *C16Case, s scale.Linear, primary bool, r *core.Rec) {
	if c.Min == c.Max {
		for _, x := range []float64{c.Min, c.Min - 1, c.Min + 1e9, 0, -1e300} {
			for _, cl := range []bool{false, true} {
				s.SetClamp(cl)
				if y := s.Map(x); y != 0.5 {
					r.Fail("linear-degenerate", "Linear{%v,%v}.Map(%v)=%v want 0.5", c.Min, c.Max, x, y)
				}
			}
		}
		return
	}
	if primary {
		r.NT()
	}
	rmin, rw := ref.R(c.Min), ref.Sub(ref.R(c.Max), ref.R(c.Min))
	width := math.Abs(c.Max - c.Min)
	if a, b := s.Map(c.Min), s.Map(c.Max); a != 0 || b != 1 {
		r.Fail("linear-ends", "Linear{%v,%v}: Map(Min)=%v Map(Max)=%v", c.Min, c.Max, a, b)
	}
	xs := c16LinearXs(math.Min(c.Min, c.Max), math.Max(c.Min, c.Max))
	prev := math.NaN()
	unclamped := make([]float64, len(xs))
	for i, x := range xs {
		y := s.Map(x)
		unclamped[i] = y
		r.Trans(1)
		r.OutcomeF(y)
		want := ref.Quo(ref.Sub(ref.R(x), rmin), rw)
		wf := ref.F(want)
		tol := 8*ref.Eps*(math.Abs(x)+math.Abs(c.Min))/width + 4*ref.Eps*math.Abs(wf)
		if !r.Err("linear-map", ref.AbsDiff(y, want), tol) {
			r.Fail("linear-map", "Linear{%v,%v}.Map(%v)=%v, exact %v", c.Min, c.Max, x, y, wf)
		}
		if i > 0 {
			if (c.Max > c.Min && !(y > prev)) || (c.Max < c.Min && !(y < prev)) {
				r.Fail("linear-monotone", "Linear{%v,%v}: Map(%v)=%v after Map(%v)=%v", c.Min, c.Max, x, y, xs[i-1], prev)
			}
		}
		prev = y
		back := s.Unmap(y)
		if !r.Err("linear-roundtrip", math.Abs(back-x), 8*ref.Eps*(math.Abs(x)+math.Abs(c.Min)+math.Abs(c.Max))) {
			r.Fail("linear-roundtrip", "Linear{%v,%v}: Unmap(Map(%v))=%v", c.Min, c.Max, x, back)
		}
	}
	for _, y := range c16Ys {
		x := s.Unmap(y)
		r.Trans(1)
		want := ref.Add(ref.Mul(ref.R(y), rw), rmin)
		if !r.Err("linear-unmap", ref.AbsDiff(x, want), 4*ref.Eps*(math.Abs(y)*width+math.Abs(c.Min)+math.Abs(ref.F(want)))) {
			r.Fail("linear-unmap", "Linear{%v,%v}.Unmap(%v)=%v, exact %v", c.Min, c.Max, y, x, ref.F(want))
		}
		kappa := (math.Abs(c.Min) + math.Abs(c.Max)) / width
		if yy := s.Map(x); !r.Err("linear-map-unmap", math.Abs(yy-y), 16*ref.Eps*(math.Abs(y)+1)*(1+kappa)) {
			r.Fail("linear-map-unmap", "Linear{%v,%v}: Map(Unmap(%v))=%v", c.Min, c.Max, y, yy)
		}
	}
	// clamping as a sequence of transitions: off -> on -> off -> on
	for step, cl := range []bool{true, false, true} {
		s.SetClamp(cl)
		if s.Clamp != cl {
			r.Fail("setclamp", "SetClamp(%v) left Clamp=%v", cl, s.Clamp)
		}
		for i, x := range xs {
			y := s.Map(x)
			r.Trans(1)
			if !cl {
				if !eqF(y, unclamped[i]) {
					r.Fail("clamp-off", "step %d: Map(%v)=%v after clamping was switched off, originally %v", step, x, y, unclamped[i])
				}
				continue
			}
			want := math.Min(1, math.Max(0, unclamped[i]))
			if !eqF(y, want) {
				r.Fail("clamp-on", "Linear{%v,%v} clamped: Map(%v)=%v want %v", c.Min, c.Max, x, y, want)
			}
		}
	}
}

// eqF is numeric equality (so -0 == 0) that also accepts NaN == NaN.
func eqF(a, b float64) bool { return a == b || (math.IsNaN(a) && math.IsNaN(b)) }

func bigLog(x float64) *big.Float { return ref.Log(new(big.Float).SetPrec(320).SetFloat64(x)) }

func c16LogXs(min, max float64) []float64 {
	// |min|,|max| of one sign; geometric lattice
	sign := 1.0
	if min < 0 {
		sign = -1
	}
	a, b := math.Abs(min), math.Abs(max)
	var xs []float64
	for _, t := range []float64{-2, -1, -0.25, 0, 1.0 / 18, 0.25, 1.0 / 3, 0.5, 0.7, 17.0 / 18, 1, 1.5, 3} {
		xs = append(xs, sign*a*math.Pow(b/a, t))
	}
	xs = append(xs, sign*a, sign*b)
	return xs
}

// c16Log checks the Log scale with the domain of the case, built in several ways:
// Map/Unmap do not depend on the tick base, nor on how the value came about.
func c16Log(c *C16Case, r *core.Rec) {
	c16LogOne(c, scale.Log{Min: c.Min, Max: c.Max, Base: 10}, "literal base 10", r)
	for _, base := range []int{2, 3, 7, 12} {
		c16LogOne(c, scale.Log{Min: c.Min, Max: c.Max, Base: base}, fmt.Sprintf("literal base %d", base), r)
	}
	// constructed for another domain (and used, and niced), then re-pointed at this one
	sgn := 1.0
	if c.Min < 0 {
		sgn = -1
	}
	for _, base := range []int{10, 5} {
		if l, err := scale.NewLog(sgn*1, sgn*100, base); err == nil {
			l.Map(sgn * 10)
			l.Unmap(0.5)
			l.Min, l.Max = c.Min, c.Max
			c16LogOne(c, l, fmt.Sprintf("NewLog(%v,%v,%d) then Min,Max assigned", sgn*1, sgn*100, base), r)
		} else {
			r.Fail("newlog-history", "NewLog(%v,%v,%d): %v", sgn*1, sgn*100, base, err)
		}
		if l, err := scale.NewLog(sgn*0.3, sgn*47, base); err == nil {
			l.Nice(scale.TickOptions{Max: 5})
			l.Map(sgn * 10)
			l.Min, l.Max = c.Min, c.Max
			c16LogOne(c, l, fmt.Sprintf("NewLog(%v,%v,%d), Nice, then Min,Max assigned", sgn*0.3, sgn*47, base), r)
		}
	}
}

func c16LogOne(c *C16Case, s scale.Log, how string, r *core.Rec) {
	sign := 1.0
	if c.Min < 0 {
		sign = -1
	}
	// wrong sign and zero
	for _, x := range []float64{0, -sign, -sign * 1e-300, -sign * 1e300, math.Copysign(0, -1)} {
		for _, cl := range []bool{false, true} {
			s.SetClamp(cl)
			if y := s.Map(x); !math.IsNaN(y) {
				r.Fail("log-NaN", "Log{%v,%v} ("+how+")"+" clamp=%v: Map(%v)=%v want NaN", c.Min, c.Max, cl, x, y)
			}
		}
	}
	s.SetClamp(false)
	if c.Min == c.Max {
		for _, x := range []float64{c.Min, c.Min * 2, sign * 1e-300, sign * 1e300} {
			if y := s.Map(x); y != 0.5 {
				r.Fail("log-degenerate", "Log{%v,%v} ("+how+")"+".Map(%v)=%v want 0.5", c.Min, c.Max, x, y)
			}
		}
		return
	}
	if how == "literal base 10" {
		r.NT()
	}
	if a, b := s.Map(c.Min), s.Map(c.Max); a != 0 || b != 1 {
		r.Fail("log-ends", "Log{%v,%v} ("+how+")"+": Map(Min)=%v Map(Max)=%v", c.Min, c.Max, a, b)
	}
	lmin, lmax := bigLog(math.Abs(c.Min)), bigLog(math.Abs(c.Max))
	den := new(big.Float).SetPrec(320).Sub(lmax, lmin)
	// conditioning of y = (ln x - ln Min)/(ln Max - ln Min) in float64: each logarithm
	// carries a rounding error of eps*|ln|, magnified by 1/|ln Max - ln Min|
	condOf := func(x float64) float64 {
		return 4 * ref.Eps * (math.Abs(math.Log(math.Abs(x))) + math.Abs(ref.ToF(lmin)) + math.Abs(ref.ToF(lmax)) + 1) / math.Abs(ref.ToF(den))
	}
	xs := c16LogXs(c.Min, c.Max)
	// the whole magnitude range of the right sign: smallest subnormal .. largest finite
	xs = append(xs, sign*0x1p-1022, sign*1e-300, sign*1e300, sign*math.MaxFloat64)
	// Subnormal x of the right sign is non-zero, so the result is a number; its value is
	// not compared (math.Log itself is off by up to 35 on amd64 for subnormals:
	// math.Log(5e-324) = -709.09), only that it is not NaN and not above Map(2^-1022).
	for _, x := range []float64{sign * 5e-324, sign * 1e-320, sign * 0x1p-1040} {
		y, edge := s.Map(x), s.Map(sign*0x1p-1022)
		r.Trans(1)
		if math.IsNaN(y) || (c.Max > c.Min) != (sign > 0) && y < edge || (c.Max > c.Min) == (sign > 0) && y > edge {
			r.Fail("log-subnormal", "Log{%v,%v} ("+how+")"+".Map(%v)=%v (non-zero value of the right sign; Map(2^-1022)=%v)", c.Min, c.Max, x, y, edge)
		}
	}
	type pt struct{ x, y float64 }
	var pts []pt
	for _, x := range xs {
		y := s.Map(x)
		r.Trans(1)
		r.OutcomeF(y)
		num := new(big.Float).SetPrec(320).Sub(bigLog(math.Abs(x)), lmin)
		want := ref.ToF(num.Quo(num, den))
		if !r.Err("log-map", math.Abs(y-want), (1e-12+condOf(x))*(1+math.Abs(want))) {
			r.Fail("log-map", "Log{%v,%v} ("+how+")"+".Map(%v)=%v, exact %v", c.Min, c.Max, x, y, want)
		}
		pts = append(pts, pt{x, y})
		if ax := math.Abs(x); ax < 1e-290 || ax > 1e290 {
			continue // Unmap would round in the subnormal range or overflow
		}
		back := s.Unmap(y)
		if !r.Err("log-roundtrip", math.Abs(back-x)/math.Abs(x), 1e-12) {
			r.Fail("log-roundtrip", "Log{%v,%v} ("+how+")"+": Unmap(Map(%v))=%v", c.Min, c.Max, x, back)
		}
	}
	// strictly monotone in x
	sort.Slice(pts, func(i, j int) bool { return pts[i].x < pts[j].x })
	incr := c.Max > c.Min
	for i := 1; i < len(pts); i++ {
		if math.Abs(pts[i].x-pts[i-1].x) <= 1e-9*math.Abs(pts[i].x) {
			continue // lattice points that coincide up to rounding (a*(b/a)^1 vs b)
		}
		if (incr && !(pts[i].y > pts[i-1].y)) || (!incr && !(pts[i].y < pts[i-1].y)) {
			r.Fail("log-monotone", "Log{%v,%v} ("+how+")"+": Map(%v)=%v, Map(%v)=%v", c.Min, c.Max, pts[i-1].x, pts[i-1].y, pts[i].x, pts[i].y)
		}
	}
	for _, y := range c16Ys {
		x := s.Unmap(y)
		r.Trans(1)
		// exact: |x| = exp(lmin + y (lmax-lmin))
		e := new(big.Float).SetPrec(320).Mul(new(big.Float).SetPrec(320).SetFloat64(y), den)
		e.Add(e, lmin)
		want := sign * ref.ToF(ref.Exp(e))
		if !r.Err("log-unmap", math.Abs(x-want)/math.Abs(want), 1e-12) {
			r.Fail("log-unmap", "Log{%v,%v} ("+how+")"+".Unmap(%v)=%v, exact %v", c.Min, c.Max, y, x, want)
		}
		if yy := s.Map(x); !r.Err("log-map-unmap", math.Abs(yy-y), (1e-12+2*condOf(x))*(1+math.Abs(y))) {
			r.Fail("log-map-unmap", "Log{%v,%v} ("+how+")"+": Map(Unmap(%v))=%v", c.Min, c.Max, y, yy)
		}
	}
	for step, cl := range []bool{true, false, true} {
		s.SetClamp(cl)
		for _, p := range pts {
			y := s.Map(p.x)
			want := p.y
			if cl {
				want = math.Min(1, math.Max(0, p.y))
			}
			if !eqF(y, want) {
				r.Fail("log-clamp", "Log{%v,%v} ("+how+")"+" step %d clamp=%v: Map(%v)=%v want %v", c.Min, c.Max, step, cl, p.x, y, want)
			}
		}
	}
}

func c16NewLog(c *C16Case, r *core.Rec) {
	s, err := scale.NewLog(c.Min, c.Max, c.Base)
	r.Trans(1)
	lo, hi := math.Min(c.Min, c.Max), math.Max(c.Min, c.Max)
	valid := c.Base >= 2 && !(lo <= 0 && hi >= 0)
	if valid {
		r.NT()
		if err != nil {
			r.Fail("newlog-reject", "NewLog(%v,%v,%d) rejected a valid range: %v", c.Min, c.Max, c.Base, err)
			return
		}
		if !((s.Min == c.Min && s.Max == c.Max) || (s.Min == c.Max && s.Max == c.Min)) || s.Base != c.Base {
			r.Fail("newlog-fields", "NewLog(%v,%v,%d)=%+v", c.Min, c.Max, c.Base, s)
		}
		if a, b := s.Map(s.Min), s.Map(s.Max); c.Min != c.Max && (a != 0 || b != 1) {
			r.Fail("newlog-ends", "NewLog(%v,%v,%d): Map(Min)=%v Map(Max)=%v", c.Min, c.Max, c.Base, a, b)
		}
		return
	}
	if err == nil {
		r.Fail("newlog-accept", "NewLog(%v,%v,%d) accepted an invalid range", c.Min, c.Max, c.Base)
		return
	}
	if _, ok := err.(scale.RangeErr); !ok {
		r.Fail("newlog-errtype", "NewLog(%v,%v,%d) returned %T, want RangeErr", c.Min, c.Max, c.Base, err)
	}
}

func c16Mk(kind string, min, max float64) scale.Quantitative {
	if kind == "log" {
		return &scale.Log{Min: min, Max: max, Base: 10}
	}
	return &scale.Linear{Min: min, Max: max}
}

func c16QQ(c *C16Case, r *core.Rec) {
	src, dst := c16Mk(c.Kind[3:], c.Min, c.Max), c16Mk(c.DKind, c.DMin, c.DMax)
	q := scale.QQ{Src: src, Dest: dst}
	r.NT()
	var xs []float64
	if c.Kind[3:] == "log" {
		xs = c16LogXs(c.Min, c.Max)
	} else {
		xs = c16LinearXs(math.Min(c.Min, c.Max), math.Max(c.Min, c.Max))
	}
	for _, x := range xs {
		y := q.Map(x)
		r.Trans(1)
		if want := dst.Unmap(src.Map(x)); !sameF(y, want) {
			r.Fail("qq-compose", "QQ.Map(%v)=%v, Dest.Unmap(Src.Map(x))=%v", x, y, want)
		}
		if math.IsNaN(y) || math.IsInf(y, 0) || y == 0 || math.Abs(y) < 1e-300 || math.Abs(y) > 1e300 {
			continue // the composition left the float64 range (exp underflow/overflow far outside the domain)
		}
		back := q.Unmap(y)
		if want := src.Unmap(dst.Map(y)); !sameF(back, want) {
			r.Fail("qq-compose", "QQ.Unmap(%v)=%v, Src.Unmap(Dest.Map(y))=%v", y, back, want)
		}
		tol := 1e-9 * (math.Abs(x) + math.Abs(c.Min) + math.Abs(c.Max))
		if c.Kind[3:] == "log" {
			tol = 1e-9 * math.Abs(x)
		}
		if !r.Err("qq-roundtrip", math.Abs(back-x), tol) {
			r.Fail("qq-roundtrip", "QQ{%s[%v,%v] -> %s[%v,%v]}: Unmap(Map(%v))=%v", c.Kind[3:], c.Min, c.Max, c.DKind, c.DMin, c.DMax, x, back)
		}
	}
}

func c16Check(c *C16Case, r *core.Rec) {
	switch {
	case c.Kind == "linear":
		c16Linear(c, r)
	case c.Kind == "log":
		c16Log(c, r)
	case c.Kind == "newlog":
		c16NewLog(c, r)
	case len(c.Kind) > 3 && c.Kind[:3] == "qq-":
		c16QQ(c, r)
	}
}

func c16Run(c *core.Ctx) {
	r := c.R
	vals := []float64{0}
	for _, m := range c16Mags {
		vals = append(vals, m, -m)
	}
	if c.Thorough() {
		for _, m := range []float64{3e-7, 0.1, 7, 12345.678, 1e9} {
			vals = append(vals, m, -m)
		}
	}
	cs := &C16Case{}
	run := func() {
		r.Case("scale", cs)
		r.Try(func() { c16Check(cs, r) })
	}
	// narrow, non-degenerate domains at both ends of the magnitude range
	for _, m := range []float64{1e-12, 1, 1e12} {
		for _, rel := range []float64{0x1p-30, 1e-3} {
			for _, sg := range []float64{1, -1} {
				if !c.Mine() {
					continue
				}
				a, b := sg*m, sg*m*(1+rel)
				*cs = C16Case{Kind: "linear", Min: a, Max: b}
				run()
				*cs = C16Case{Kind: "linear", Min: b, Max: a}
				run()
				*cs = C16Case{Kind: "log", Min: a, Max: b}
				run()
			}
		}
	}
	for _, a := range vals {
		for _, b := range vals {
			if !c.Mine() {
				continue
			}
			*cs = C16Case{Kind: "linear", Min: a, Max: b}
			run()
			if a != 0 && b != 0 && (a > 0) == (b > 0) {
				*cs = C16Case{Kind: "log", Min: a, Max: b}
				run()
			}
			for _, base := range []int{-1, 0, 1, 2, 3, 10} {
				*cs = C16Case{Kind: "newlog", Min: a, Max: b, Base: base}
				run()
			}
		}
	}
	// QQ pairings on a smaller set of domains
	doms := [][2]float64{{1, 10}, {1e3, 1e-3}, {-2.5, -1e3}, {1e-12, 1e12}}
	ldoms := [][2]float64{{0, 1}, {-2.5, 1e3}, {1e12, -1e12}, {1, 2.5}}
	for _, sk := range []string{"linear", "log"} {
		for _, dk := range []string{"linear", "log"} {
			sd, dd := ldoms, ldoms
			if sk == "log" {
				sd = doms
			}
			if dk == "log" {
				dd = doms
			}
			for _, s := range sd {
				for _, d := range dd {
					if !c.Mine() {
						continue
					}
					*cs = C16Case{Kind: "qq-" + sk, Min: s[0], Max: s[1], DKind: dk, DMin: d[0], DMax: d[1]}
					run()
				}
			}
		}
	}
	r.Bound("domains", fmt.Sprintf("%d x %d ordered (Min,Max) pairs; 4 x 16 QQ pairings", len(vals), len(vals)))
}
