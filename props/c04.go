package props

import (
	"fmt"
	"math"
	"math/big"

	"github.com/aclements/go-moremath/stats"

	"verif/mc/core"
	"verif/mc/enum"
	"verif/mc/ref"
)

// C04 — t-tests and MeanCI return the textbook statistic, DoF and Student-t tails.

type C04Case struct {
	Test string    `json:"test"` // pooled, welch, paired, one, meanci
	X1   []float64 `json:"x1"`
	X2   []float64 `json:"x2,omitempty"`
	Mu0  float64   `json:"mu0,omitempty"`
	// Conf, if non-zero, restricts a meanci case to this single confidence level.
	Conf float64 `json:"conf,omitempty"`
	// Sizes: for Test "meanci-sweep", the sequence of sample sizes visited within
	// one case (the history is part of the case, so a replay reproduces it).
	Sizes []int `json:"sizes,omitempty"`
}

func init() {
	core.Register(&core.Prop{
		ID:    "C04",
		Title: "t-tests and MeanCI return the textbook statistic, DoF and Student-t tails",
		Run:   c04Run,
		Kinds: []core.Kind{core.ReplayOf("ttest", c04Check)},
		Rule: "every pair of multisets of sizes {2,3,4}^2 over {-3,-1,0,0.5,2,7} for the pooled and Welch tests, every pair of equal-length sequences for the paired test, every multiset n<=5 x mu0 in {-1,0,0.25,3} for the one-sample test, all three alternatives; " +
			"a complete structured family n in {2,3,10,39,40} x 4 patterns x offsets {0,1e3,1e6} x 3 scales; MeanCI and the one-sample test on every size n=2..40 in three orders of sizes within one process; error cases for every combination of sizes 0/1/2 and constant data; MeanCI on every multiset n<=5 and the family x 11 confidence levels. " +
			"Oracle: T^2 and DoF as exact rationals, P from the closed-form t CDF (integer DoF) or gonum (Welch). Non-trivial: no error expected.",
		Technique: "bounded-exhaustive multiset-pair enumeration of the real t-tests against exact rational statistics and an independent t distribution",
		Assumptions: []string{
			"tolerance on T: 16 n eps (|T| cond + max|x|/SE) with cond = sqrt(1+mean^2/varpop); DoF exact (integer cases) or 64 n eps cond relative (Welch); P 1e-9 plus the effect of the T tolerance",
			"a pooled test with one sample of size 1 is neither a documented error nor inside 'at least two values each': not exercised",
			"MeanCI with c<=0 and n<=1 (both clauses apply) accepts zero or infinite width",
		},
	})
}

var c04RefMemo = map[[2]float64]float64{}

func c04TCDF(t, dof float64) float64 {
	k := [2]float64{t, dof}
	if v, ok := c04RefMemo[k]; ok {
		return v
	}
	var v float64
	if isInt(dof) && dof >= 1 && dof <= 2000 {
		v = ref.ToF(ref.TCDFInt(t, int(dof)))
	} else {
		v = c05TRef(dof, t) // series near 0, tail quadrature for dof >= 20, gonum below
	}
	if len(c04RefMemo) > 200000 {
		c04RefMemo = map[[2]float64]float64{}
	}
	c04RefMemo[k] = v
	return v
}

type c04Expect struct {
	err     error
	t, dof  float64
	tolT    float64
	tolDof  float64
	n1, n2  int
	skipAll bool
}

func ratSqrtF(r *big.Rat) float64 { return ref.SqrtRat(r) }

// c04Oracle computes the textbook statistic exactly.
func c04Oracle(c *C04Case) c04Expect {
	n1, n2 := len(c.X1), len(c.X2)
	e := c04Expect{n1: n1, n2: n2}
	cond := func(m *ref.Moments) float64 {
		if m.N < 2 || math.IsInf(m.CondVar, 1) {
			return 1
		}
		return m.CondVar
	}
	switch c.Test {
	case "pooled", "welch":
		m1, m2 := ref.ExactMoments(c.X1), ref.ExactMoments(c.X2)
		if c.Test == "pooled" {
			if n1 == 0 || n2 == 0 {
				e.err = stats.ErrSampleSize
				return e
			}
			if n1 < 2 || n2 < 2 {
				if n1 == 1 && n2 == 1 {
					e.err = stats.ErrZeroVariance
					return e
				}
				e.skipAll = true
				return e
			}
		} else if n1 <= 1 || n2 <= 1 {
			e.err = stats.ErrSampleSize
			return e
		}
		if m1.Var.Sign() == 0 && m2.Var.Sign() == 0 {
			e.err = stats.ErrZeroVariance
			return e
		}
		d := ref.Sub(m1.Mean, m2.Mean)
		r1, r2 := ref.RI(int64(n1)), ref.RI(int64(n2))
		var se2 *big.Rat
		if c.Test == "pooled" {
			dof := ref.RI(int64(n1 + n2 - 2))
			v12 := ref.Quo(ref.Add(ref.Mul(ref.RI(int64(n1-1)), m1.Var), ref.Mul(ref.RI(int64(n2-1)), m2.Var)), dof)
			se2 = ref.Mul(v12, ref.Add(ref.Quo(ref.RI(1), r1), ref.Quo(ref.RI(1), r2)))
			e.dof = float64(n1 + n2 - 2)
		} else {
			a, b := ref.Quo(m1.Var, r1), ref.Quo(m2.Var, r2)
			se2 = ref.Add(a, b)
			den := ref.Add(ref.Quo(ref.Mul(a, a), ref.RI(int64(n1-1))), ref.Quo(ref.Mul(b, b), ref.RI(int64(n2-1))))
			e.dof = ref.F(ref.Quo(ref.Mul(se2, se2), den))
			e.tolDof = 64 * float64(n1+n2) * ref.Eps * math.Max(cond(m1), cond(m2)) * e.dof
		}
		se := ratSqrtF(se2)
		e.t = ref.F(d) / se
		// exact sign/magnitude: T^2 = d^2/se2
		t2 := ref.Quo(ref.Mul(d, d), se2)
		e.t = math.Copysign(ratSqrtF(t2), float64(d.Sign()))
		if d.Sign() == 0 {
			e.t = 0
		}
		n := float64(n1 + n2)
		e.tolT = 16 * n * ref.Eps * (math.Abs(e.t)*math.Max(cond(m1), cond(m2)) + math.Max(m1.MaxAbs, m2.MaxAbs)/se)
	case "paired":
		if n1 != n2 {
			e.err = stats.ErrMismatchedSamples
			return e
		}
		if n1 <= 1 {
			e.err = stats.ErrSampleSize
			return e
		}
		// exact differences of the float inputs
		sum, sumsq := new(big.Rat), new(big.Rat)
		maxAbs := 0.0
		for i := range c.X1 {
			d := ref.Sub(ref.R(c.X1[i]), ref.R(c.X2[i]))
			sum.Add(sum, d)
			sumsq.Add(sumsq, ref.Mul(d, d))
			maxAbs = math.Max(maxAbs, math.Max(math.Abs(c.X1[i]), math.Abs(c.X2[i])))
		}
		nn := ref.RI(int64(n1))
		mean := ref.Quo(sum, nn)
		varp := ref.Sub(ref.Quo(sumsq, nn), ref.Mul(mean, mean))
		if varp.Sign() == 0 {
			e.err = stats.ErrZeroVariance
			return e
		}
		v := ref.Quo(ref.Mul(varp, nn), ref.RI(int64(n1-1)))
		num := ref.Sub(mean, ref.R(c.Mu0))
		t2 := ref.Quo(ref.Mul(ref.Mul(num, num), nn), v)
		e.t = math.Copysign(ratSqrtF(t2), float64(num.Sign()))
		if num.Sign() == 0 {
			e.t = 0
		}
		e.dof = float64(n1 - 1)
		se := ratSqrtF(ref.Quo(v, nn))
		cnd := math.Sqrt(1 + ref.F(ref.Quo(ref.Mul(mean, mean), varp)))
		// the differences themselves are rounded by the library (eps * max|x| each)
		e.tolT = 16 * float64(n1) * ref.Eps * (math.Abs(e.t)*(cnd+maxAbs/ratSqrtF(varp)) + (maxAbs+math.Abs(c.Mu0))/se)
	case "one":
		m := ref.ExactMoments(c.X1)
		if n1 == 0 {
			e.err = stats.ErrSampleSize
			return e
		}
		if n1 == 1 || m.Var.Sign() == 0 {
			e.err = stats.ErrZeroVariance
			return e
		}
		nn := ref.RI(int64(n1))
		num := ref.Sub(m.Mean, ref.R(c.Mu0))
		t2 := ref.Quo(ref.Mul(ref.Mul(num, num), nn), m.Var)
		e.t = math.Copysign(ratSqrtF(t2), float64(num.Sign()))
		if num.Sign() == 0 {
			e.t = 0
		}
		e.dof = float64(n1 - 1)
		e.n2 = 0
		se := ratSqrtF(ref.Quo(m.Var, nn))
		e.tolT = 16 * float64(n1) * ref.Eps * (math.Abs(e.t)*cond(m) + (m.MaxAbs+math.Abs(c.Mu0))/se)
	}
	return e
}

func c04Call(c *C04Case, alt stats.LocationHypothesis) (*stats.TTestResult, error) {
	switch c.Test {
	case "pooled":
		return stats.TwoSampleTTest(stats.Sample{Xs: c.X1}, stats.Sample{Xs: c.X2}, alt)
	case "welch":
		return stats.TwoSampleWelchTTest(stats.Sample{Xs: c.X1}, stats.Sample{Xs: c.X2}, alt)
	case "paired":
		return stats.PairedTTest(c.X1, c.X2, c.Mu0, alt)
	case "one":
		return stats.OneSampleTTest(stats.Sample{Xs: c.X1}, c.Mu0, alt)
	}
	panic("unknown test " + c.Test)
}

func c04WantP(t, dof float64, alt stats.LocationHypothesis) float64 {
	switch alt {
	case stats.LocationLess:
		return c04TCDF(t, dof)
	case stats.LocationGreater:
		return c04TCDF(-t, dof)
	}
	return 2 * c04TCDF(-math.Abs(t), dof)
}

func c04SweepSample(n, pat int) []float64 {
	x := make([]float64, n)
	for i := range x {
		switch pat {
		case 0:
			x[i] = float64((i*7)%n) - float64(n)/3
		case 1:
			x[i] = 100 + float64(i%5)/4 + float64(i*i%7)
		}
	}
	return x
}

func c04Check(c *C04Case, r *core.Rec) {
	if c.Test == "meanci" {
		c04MeanCI(c, r)
		return
	}
	if c.Test == "meanci-sweep" {
		// one history: MeanCI at one confidence level over a sequence of sample sizes
		for _, n := range c.Sizes {
			sub := &C04Case{Test: "meanci", X1: c04SweepSample(n, 1), Conf: c.Conf}
			c04MeanCI(sub, r)
		}
		return
	}
	e := c04Oracle(c)
	if e.skipAll {
		r.Skip("pooled test with a sample of size 1")
		return
	}
	s1, s2 := snapFull(c.X1), snapFull(c.X2)
	var got [3]*stats.TTestResult
	for ai, alt := range c01Alts {
		res, err := c04Call(c, alt)
		r.Trans(1)
		if e.err != nil {
			if err != e.err || res != nil {
				r.Fail("error-"+c.Test, "%s x1=%v x2=%v: got (%v, %v), want error %v", c.Test, trunc(c.X1), trunc(c.X2), res, err, e.err)
			}
			continue
		}
		if err != nil || res == nil {
			r.Fail("unexpected-error-"+c.Test, "%s x1=%v x2=%v mu0=%v: unexpected error %v", c.Test, trunc(c.X1), trunc(c.X2), c.Mu0, err)
			continue
		}
		got[ai] = res
		if res.N1 != e.n1 || res.N2 != e.n2 || res.AltHypothesis != alt {
			r.Fail("fields", "%s: N1,N2,Alt=%d,%d,%v want %d,%d,%v", c.Test, res.N1, res.N2, res.AltHypothesis, e.n1, e.n2, alt)
		}
		if !r.Err("T-"+c.Test, math.Abs(res.T-e.t), e.tolT) {
			r.Fail("T-"+c.Test, "%s x1=%v x2=%v mu0=%v: T=%v, exact %v", c.Test, trunc(c.X1), trunc(c.X2), c.Mu0, res.T, e.t)
		}
		if e.tolDof == 0 {
			if res.DoF != e.dof {
				r.Fail("DoF-"+c.Test, "%s: DoF=%v want %v", c.Test, res.DoF, e.dof)
			}
		} else if !r.Err("DoF-welch", math.Abs(res.DoF-e.dof), e.tolDof) {
			r.Fail("DoF-welch", "welch x1=%v x2=%v: DoF=%v, Welch-Satterthwaite gives %v", trunc(c.X1), trunc(c.X2), res.DoF, e.dof)
		}
		want := c04WantP(e.t, e.dof, alt)
		tolP := 1e-9 + 2*0.4*e.tolT
		if e.tolDof != 0 {
			tolP += 0.2 * e.tolDof / math.Max(e.dof, 1)
		}
		r.OutcomeF(res.P)
		if !r.Err("P-"+c.Test, math.Abs(res.P-want), tolP) {
			r.Fail("P-"+c.Test+"-"+alt.String(), "%s x1=%v x2=%v mu0=%v alt=%v: P=%v, Student-t tail %v (T=%v DoF=%v)", c.Test, trunc(c.X1), trunc(c.X2), c.Mu0, alt, res.P, want, e.t, e.dof)
		}
	}
	if !s1.same(c.X1) || !s2.same(c.X2) {
		r.Fail("modified", "%s modified its input", c.Test)
	}
	if e.err != nil || got[0] == nil || got[1] == nil || got[2] == nil {
		return
	}
	r.NT()
	tolP := 2 * (1e-9 + 2*0.4*e.tolT)
	// swap law (two-sample tests; mu0 = 0 for the paired test)
	if c.Test == "pooled" || c.Test == "welch" || (c.Test == "paired" && c.Mu0 == 0) {
		sw := &C04Case{Test: c.Test, X1: c.X2, X2: c.X1}
		for ai, alt := range c01Alts {
			res, err := c04Call(sw, alt)
			r.Trans(1)
			if err != nil {
				r.Fail("swap-error", "%s: swapped call failed: %v", c.Test, err)
				continue
			}
			mirror := got[2-ai]
			if math.Abs(res.T+got[ai].T) > 2*e.tolT || math.Abs(res.P-mirror.P) > tolP || math.Abs(res.DoF-got[ai].DoF) > 2*e.tolDof {
				r.Fail("swap", "%s x1=%v x2=%v alt=%v: (T,DoF,P)=(%v,%v,%v) swapped, original (T,DoF)=(%v,%v), mirrored P=%v", c.Test, trunc(c.X1), trunc(c.X2), alt, res.T, res.DoF, res.P, got[ai].T, got[ai].DoF, mirror.P)
			}
		}
	}
	// shift and scale invariance: the transformed data is checked against its own exact oracle
	for _, tr := range []struct {
		name string
		f    func(float64) float64
		mu   func(float64) float64
	}{
		{"+1", func(x float64) float64 { return x + 1 }, func(m float64) float64 { return m + 1 }},
		{"-7.25", func(x float64) float64 { return x - 7.25 }, func(m float64) float64 { return m - 7.25 }},
		{"+1e3", func(x float64) float64 { return x + 1e3 }, func(m float64) float64 { return m + 1e3 }},
		{"*0.5", func(x float64) float64 { return x * 0.5 }, func(m float64) float64 { return m * 0.5 }},
		{"*3", func(x float64) float64 { return x * 3 }, func(m float64) float64 { return m * 3 }},
		{"*1e3", func(x float64) float64 { return x * 1e3 }, func(m float64) float64 { return m * 1e3 }},
		{"*2^-24", func(x float64) float64 { return x * 0x1p-24 }, func(m float64) float64 { return m * 0x1p-24 }},
		{"*2^-40", func(x float64) float64 { return x * 0x1p-40 }, func(m float64) float64 { return m * 0x1p-40 }},
		{"*2^30", func(x float64) float64 { return x * 0x1p30 }, func(m float64) float64 { return m * 0x1p30 }},
	} {
		tc := &C04Case{Test: c.Test, X1: mapF(c.X1, tr.f), X2: mapF(c.X2, tr.f), Mu0: c.Mu0}
		if c.Test == "one" {
			tc.Mu0 = tr.mu(c.Mu0)
		}
		if c.Test == "paired" && tr.name[0] == '*' {
			tc.Mu0 = tr.mu(c.Mu0)
		}
		te := c04Oracle(tc)
		if te.err != nil {
			continue
		}
		for ai, alt := range c01Alts {
			res, err := c04Call(tc, alt)
			r.Trans(1)
			if err != nil {
				r.Fail("invariance-error", "%s after %s: %v", c.Test, tr.name, err)
				continue
			}
			tT := e.tolT + te.tolT
			if math.Abs(res.T-got[ai].T) > tT || math.Abs(res.DoF-got[ai].DoF) > e.tolDof+te.tolDof || math.Abs(res.P-got[ai].P) > 2e-9+0.8*tT+0.2*(e.tolDof+te.tolDof)/math.Max(e.dof, 1) {
				r.Fail("invariance", "%s x1=%v x2=%v after x%s alt=%v: (T,DoF,P)=(%v,%v,%v), before (%v,%v,%v)", c.Test, trunc(c.X1), trunc(c.X2), tr.name, alt, res.T, res.DoF, res.P, got[ai].T, got[ai].DoF, got[ai].P)
			}
		}
	}
	// History: the same slices are tested, negated in place by the caller (mu0 too) and
	// tested again: T changes sign, the one-sided p-values change places.
	hc := &C04Case{Test: c.Test, X1: append([]float64{}, c.X1...), X2: append([]float64{}, c.X2...), Mu0: c.Mu0}
	for _, alt := range c01Alts {
		c04Call(hc, alt)
	}
	for i := range hc.X1 {
		hc.X1[i] = -hc.X1[i]
	}
	for i := range hc.X2 {
		hc.X2[i] = -hc.X2[i]
	}
	hc.Mu0 = -c.Mu0
	for ai, alt := range c01Alts {
		res, err := c04Call(hc, alt)
		r.Trans(2)
		if err != nil {
			r.Fail("rewritten-error", "%s after negating the samples in place: %v", c.Test, err)
			continue
		}
		mirror := got[2-ai]
		if math.Abs(res.T+got[ai].T) > 2*e.tolT || math.Abs(res.P-mirror.P) > tolP || math.Abs(res.DoF-got[ai].DoF) > 2*e.tolDof {
			r.Fail("rewritten-in-place", "%s x1=%v x2=%v alt=%v: after negating the samples in place (T,DoF,P)=(%v,%v,%v); before (T,DoF)=(%v,%v), mirrored P=%v", c.Test, trunc(c.X1), trunc(c.X2), alt, res.T, res.DoF, res.P, got[ai].T, got[ai].DoF, mirror.P)
		}
	}
}

func mapF(x []float64, f func(float64) float64) []float64 {
	if x == nil {
		return nil
	}
	y := make([]float64, len(x))
	for i, v := range x {
		y[i] = f(v)
	}
	return y
}

var c04Confs = []float64{-0.1, 0, 1e-9, 0.1, 0.5, 0.9, 0.95, 0.99, 1 - 1e-9, 1, 1.5}

func c04MeanCI(c *C04Case, r *core.Rec) {
	xs := withSpare(c.X1)
	snap := snapFull(xs)
	n := len(xs)
	m := ref.ExactMoments(xs)
	r.NT()
	confs := c04Confs
	if c.Conf != 0 {
		confs = []float64{c.Conf}
	}
	for _, conf := range confs {
		mean, lo, hi := stats.MeanCI(xs, conf)
		r.Trans(1)
		tag := fmt.Sprintf("MeanCI(%v, %v)=(%v,%v,%v)", trunc(c.X1), conf, mean, lo, hi)
		if n == 0 {
			if !math.IsNaN(mean) || !math.IsNaN(lo) || !math.IsNaN(hi) {
				r.Fail("meanci-empty", "%s: want NaN for empty input", tag)
			}
			continue
		}
		if !r.Err("meanci-mean", ref.AbsDiff(mean, m.Mean), 8*float64(n)*ref.Eps*m.MaxAbs) {
			r.Fail("meanci-mean", "%s: exact mean %v", tag, m.MeanF)
		}
		zeroW := lo == mean && hi == mean
		infW := math.IsInf(lo, -1) && math.IsInf(hi, 1)
		switch {
		case conf <= 0 && n <= 1:
			if !zeroW && !infW {
				r.Fail("meanci-degenerate", "%s: want zero or infinite width", tag)
			}
			continue
		case conf <= 0:
			if !zeroW {
				r.Fail("meanci-zero-width", "%s: want zero width for c<=0", tag)
			}
			continue
		case conf >= 1 || n <= 1:
			if !infW {
				r.Fail("meanci-infinite-width", "%s: want infinite width", tag)
			}
			continue
		}
		// symmetric
		wl, wh := mean-lo, hi-mean
		scale := math.Abs(mean) + math.Abs(lo) + math.Abs(hi)
		if math.Abs(wl-wh) > 8*ref.Eps*scale {
			r.Fail("meanci-symmetric", "%s: half widths %v and %v", tag, wl, wh)
		}
		if m.Var.Sign() == 0 {
			if !zeroW {
				r.Fail("meanci-zero-variance", "%s: constant data must give zero width", tag)
			}
			continue
		}
		sd := ref.SqrtRat(m.Var)
		t := wh * math.Sqrt(float64(n)) / sd
		content := 1 - 2*c04TCDF(-t, float64(n-1))
		tol := 1e-9 + 0.8*t*(8*ref.Eps*scale/wh+16*float64(n)*ref.Eps*m.CondVar)
		r.OutcomeF(lo, hi)
		if !r.Err("meanci-content", math.Abs(content-conf), tol) {
			r.Fail("meanci-content", "%s: the interval is mean +- %v s/sqrt(n), whose Student-t content is %v", tag, t, content)
		}
	}
	if !snap.same(xs) {
		r.Fail("meanci-modified", "MeanCI modified its input")
	}
}

var c04Alpha = []float64{-3, -1, 0, 0.5, 2, 7}

func c04Multisets(n int) [][]float64 {
	var out [][]float64
	enum.Multisets(n, len(c04Alpha), func(s []int) {
		x := make([]float64, n)
		for i, k := range s {
			x[i] = c04Alpha[k]
		}
		out = append(out, riffle(x))
	})
	return out
}

func c04Family() [][]float64 {
	var out [][]float64
	for _, n := range []int{2, 3, 10, 39, 40} {
		for pat := 0; pat < 4; pat++ {
			for _, off := range []float64{0, 1e3, 1e6} {
				for si := 0; si < 3; si++ {
					scale := []float64{1e-6 * off, 1, 1e3}[si]
					if scale == 0 {
						scale = 1.0 / 1024
					}
					x := make([]float64, n)
					for i := range x {
						var u float64
						switch pat {
						case 0:
							u = float64(i) - float64(n-1)/2 // arithmetic
						case 1:
							u = math.Ldexp(1, i%11) - 8 // geometric
						case 2:
							u = float64(i%2)*10 + float64(i%3)/4 // two clusters
						case 3:
							u = float64(i % 4)
							if i == 0 {
								u = 100 // one outlier
							}
						}
						x[i] = off + scale*u
					}
					if off+scale*100 > 1e6+1e6 {
						continue
					}
					out = append(out, riffle(x))
				}
			}
		}
	}
	return out
}

func c04Run(c *core.Ctx) {
	r := c.R
	sizes := []int{2, 3, 4}
	pairedN := 3
	if c.Thorough() {
		sizes = []int{2, 3, 4, 5}
		pairedN = 4
	}
	cs := &C04Case{}
	run := func(test string, x1, x2 []float64, mu0 float64) {
		cs.Test, cs.X1, cs.X2, cs.Mu0 = test, x1, x2, mu0
		r.Case("ttest", cs)
		r.Try(func() { c04Check(cs, r) })
	}
	ms := map[int][][]float64{}
	for n := 0; n <= 5; n++ {
		ms[n] = c04Multisets(n)
	}
	for _, n1 := range sizes {
		for _, n2 := range sizes {
			for _, x1 := range ms[n1] {
				if !c.Mine() {
					continue
				}
				for _, x2 := range ms[n2] {
					run("pooled", x1, x2, 0)
					run("welch", x1, x2, 0)
				}
			}
		}
	}
	r.Bound("two_sample", fmt.Sprintf("every pair of multisets with sizes in %v over 6 values, pooled and Welch", sizes))
	// paired: every pair of equal-length sequences
	for n := 2; n <= pairedN; n++ {
		enum.Sequences(n, len(c04Alpha), func(s1 []int) {
			if !c.Mine() {
				return
			}
			x1 := make([]float64, n)
			for i, k := range s1 {
				x1[i] = c04Alpha[k]
			}
			enum.Sequences(n, len(c04Alpha), func(s2 []int) {
				x2 := make([]float64, n)
				for i, k := range s2 {
					x2[i] = c04Alpha[k]
				}
				run("paired", x1, x2, 0)
				if n <= 2 || s2[0] == 0 {
					run("paired", x1, x2, 0.25)
				}
			})
		})
	}
	r.Bound("paired", fmt.Sprintf("every pair of sequences of length 2..%d", pairedN))
	// one-sample and MeanCI on every multiset n<=5
	for n := 0; n <= 5; n++ {
		for _, x := range ms[n] {
			if !c.Mine() {
				continue
			}
			for _, mu0 := range []float64{-1, 0, 0.25, 3} {
				run("one", x, nil, mu0)
			}
			run("meanci", x, nil, 0)
		}
	}
	// error cases: sizes 0/1/2 and constant data
	if c.First() {
		small := [][]float64{{}, {1.5}, {1.5, 1.5}, {1.5, 2}, {2, 2, 2}, {1, 2, 4}}
		for _, a := range small {
			for _, b := range small {
				run("pooled", a, b, 0)
				run("welch", a, b, 0)
				run("paired", a, b, 0)
				run("paired", a, b, 1)
			}
			run("one", a, nil, 0)
			run("one", a, nil, 1.5)
			run("meanci", a, nil, 0)
		}
	}
	// MeanCI (and the one-sample test) for EVERY size 2..40 inside one process, in
	// ascending, descending and a mixed order of sizes at the same confidence
	// levels: "samples of 2..40 values" is the quantifier, and a result must not
	// depend on which sizes were asked for before (C20's history clause seen from here).
	if c.First() {
		mk := c04SweepSample
		var order []int
		for n := 2; n <= 40; n++ {
			order = append(order, n)
		}
		for n := 40; n >= 2; n-- {
			order = append(order, n)
		}
		for k := 0; k < 39; k++ {
			order = append(order, 2+(k*17)%39)
		}
		for _, n := range order {
			for pat := 0; pat < 2; pat++ {
				x := mk(n, pat)
				run("meanci", x, nil, 0)
				run("one", x, nil, x[0])
			}
		}
		// the same sweeps with the confidence level fixed across sizes, each as ONE
		// case that carries its whole history
		for _, conf := range []float64{0.5, 0.9, 0.95, 0.99} {
			for _, ord := range [][]int{order[:39], order[39:78], order[78:], order} {
				*cs = C04Case{Test: "meanci-sweep", Sizes: ord, Conf: conf}
				r.Case("ttest", cs)
				r.Try(func() { c04Check(cs, r) })
			}
		}
		// short repetitive histories over two and three (size, level) keys: A,B,A,A,B,B,A,B,...
		// (a recently-used cache with a bookkeeping slip only shows on the 4th call)
		for _, conf := range []float64{0.9, 0.95} {
			for _, ord := range [][]int{{5, 9, 5, 5, 9, 9, 5, 9, 5}, {7, 12, 20, 7, 7, 20, 12, 12, 7, 20}, {3, 3, 3, 4, 3, 4, 4, 3}} {
				*cs = C04Case{Test: "meanci-sweep", Sizes: ord, Conf: conf}
				r.Case("ttest", cs)
				r.Try(func() { c04Check(cs, r) })
			}
		}
		cs.Conf = 0
	}
	// structured family to n=40
	fam := c04Family()
	for i, x1 := range fam {
		if !c.Mine() {
			continue
		}
		run("one", x1, nil, x1[0])
		run("one", x1, nil, 0)
		run("meanci", x1, nil, 0)
		for j, x2 := range fam {
			if (i+j)%7 != 0 && !c.Thorough() {
				continue
			}
			run("pooled", x1, x2, 0)
			run("welch", x1, x2, 0)
			if len(x1) == len(x2) {
				run("paired", x1, x2, 0)
			}
		}
	}
	r.Bound("family", fmt.Sprintf("%d structured samples (n in {2,3,10,39,40} x 4 patterns x 3 offsets x 3 scales), pairs: every 7th (quick) / all (thorough)", len(fam)))
}
