package props

import (
	"fmt"
	"math"
	"math/big"
	"math/rand"

	"github.com/aclements/go-moremath/stats"
	"gonum.org/v1/gonum/stat/distuv"

	"verif/mc/core"
	"verif/mc/ref"
)

// C05 — Normal, Student-t and delta distributions are coherent and accurate.

type C05Normal struct {
	Mu    float64 `json:"mu"`
	Sigma float64 `json:"sigma"`
}

type C05T struct {
	V float64 `json:"v"`
}

type C05Delta struct {
	T float64 `json:"t"`
}

func init() {
	core.Register(&core.Prop{
		ID:    "C05",
		Title: "Normal, Student-t and delta distributions are coherent and accurate",
		Run:   c05Run,
		Kinds: []core.Kind{core.ReplayOf("normal", c05Normal), core.ReplayOf("t", c05T), core.ReplayOf("delta", c05Delta)},
		Rule: "NormalDist on the (Mu,Sigma) lattice {-1e6,-3.5,0,2,1e6} x {1e-6,0.5,1,3,1e6} with x = Mu + k*Sigma/8, k=-320..320 (+-40 standard units) and a p lattice down to 1e-300 including Acklam's region switch +-1 ulp; " +
			"TDist on V in {0.1,0.25,0.37,0.5,1,1.5,2,3,4.5,7.3,10,30,33.3,100,128.4,250.5,341.5,1e3,2500.5,1e4} with x = k/8 and +-10^j; DeltaDist on 5 locations. Oracle: erfc series in up to 5000-bit big.Float on the exact standardised argument; finite closed form of the t CDF for integer V, gonum StudentsT elsewhere. " +
			"Rand with 3 seeded sources and with the nil (global, re-seeded) source bit for bit against NormFloat64()*Sigma+Mu. Each parameter set is one case (non-trivial); every lattice point is one library evaluation.",
		Technique: "bounded-exhaustive lattice enumeration of the real distributions against high-precision references; integrals by 20-point Gauss-Legendre per lattice cell",
		Assumptions: []string{
			"CDF accuracy 1e-9 absolute; normal monotonicity slack 1e-15, t monotonicity slack 1e-11; symmetry 1e-12 on exactly symmetric argument pairs",
			"CDF(InvCDF(p))=p to 1e-9 relative is asserted when |z| (|Mu|/Sigma) 2^-52 < 1e-10 (the quantile is representable); otherwise InvCDF is compared with the big.Float quantile to 2 ulp of x + 1e-9 Sigma/(1+|z|)",
			"the integral check is skipped where the argument grid itself cannot resolve the density (ulp(x)/Sigma >= 6.6e-9, i.e. Mu=+-1e6 with Sigma=1e-6)",
			"between lattice points only monotonicity at lattice resolution is decided",
			"nil-source Rand: math/rand's global source is re-seeded by the harness (rand.Seed is effective on go1.23; if it is not, only the 64-draw standardised moment bounds |mean|<=1.5, 0.1<=m2<=5, |z|<=40 are checked: a correct implementation fails them with probability < 1e-30)",
		},
	})
}

func c05PLattice() []float64 {
	ps := []float64{1e-300, 1e-200, 1e-100, 1e-50, 1e-20, 1e-10, 1e-5}
	for k := 1; k < 256; k++ {
		ps = append(ps, float64(k)/256)
	}
	for _, b := range []float64{0.02425, 1 - 0.02425} {
		ps = append(ps, b, math.Nextafter(b, 0), math.Nextafter(b, 1))
	}
	for _, t := range []float64{1e-5, 1e-10, 1e-15, 0x1p-53} {
		ps = append(ps, 1-t)
	}
	return ps
}

func c05Normal(c *C05Normal, r *core.Rec) {
	d := stats.NormalDist{Mu: c.Mu, Sigma: c.Sigma}
	r.NT()
	mu, sg := ref.R(c.Mu), ref.R(c.Sigma)
	zOf := func(x float64) *big.Float {
		z := ref.Quo(ref.Sub(ref.R(x), mu), sg)
		return new(big.Float).SetPrec(256).SetRat(z)
	}
	const K = 320
	xs := make([]float64, 0, 2*K+1)
	for k := -K; k <= K; k++ {
		xs = append(xs, c.Mu+float64(k)*c.Sigma/8)
	}
	cdf := make([]float64, len(xs))
	prev := 0.0
	for i, x := range xs {
		if i > 0 && x == xs[i-1] {
			cdf[i] = cdf[i-1]
			continue
		}
		g := d.CDF(x)
		cdf[i] = g
		r.Trans(1)
		r.OutcomeF(g)
		want := ref.ToF(ref.NormCDFBig(zOf(x)))
		if !r.Err("N-CDF", math.Abs(g-want), 1e-9) {
			r.Fail("N-CDF", "Normal{%v,%v}.CDF(%v)=%v, reference %v", c.Mu, c.Sigma, x, g, want)
		}
		if g < 0 || g > 1 || math.IsNaN(g) {
			r.Fail("N-CDF-range", "CDF(%v)=%v", x, g)
		}
		if g < prev-1e-15 {
			r.Fail("N-CDF-monotone", "Normal{%v,%v}.CDF drops from %v to %v at x=%v", c.Mu, c.Sigma, prev, g, x)
		}
		prev = g
		p := d.PDF(x)
		if p < 0 || math.IsNaN(p) {
			r.Fail("N-PDF-negative", "PDF(%v)=%v", x, p)
		}
		// the integral of PDF over an arbitrarily short interval at x is the density:
		// PDF(x) = exp(-z^2/2)/(Sigma sqrt(2 pi)) with the exact standardised z
		zf := ref.ToF(zOf(x))
		wantP := math.Exp(-zf*zf/2) / (c.Sigma * math.Sqrt(2*math.Pi))
		if !r.Err("N-PDF", math.Abs(p-wantP), 1e-9*wantP*(1+zf*zf)+1e-300) {
			r.Fail("N-PDF", "Normal{%v,%v}.PDF(%v)=%v, density %v (z=%v)", c.Mu, c.Sigma, x, p, wantP, zf)
		}
	}
	if lo, hi := d.CDF(math.Inf(-1)), d.CDF(math.Inf(1)); lo != 0 || hi != 1 {
		r.Fail("N-CDF-limits", "CDF(-Inf)=%v CDF(+Inf)=%v", lo, hi)
	}
	// symmetry on exactly symmetric pairs
	for k := 1; k <= K; k += 3 {
		x2 := c.Mu + float64(k)*c.Sigma/8
		dd := x2 - c.Mu
		x1 := c.Mu - dd
		if new(big.Rat).Add(ref.R(x1), ref.R(x2)).Cmp(ref.Mul(ref.RI(2), mu)) != 0 {
			r.Skip("symmetry pair not exactly representable")
			continue
		}
		if s := d.CDF(x1) + d.CDF(x2); !r.Err("N-symmetry", math.Abs(s-1), 1e-12) {
			r.Fail("N-symmetry", "Normal{%v,%v}: CDF(%v)+CDF(%v)=%v", c.Mu, c.Sigma, x1, x2, s)
		}
	}
	// integral of PDF over each lattice cell = difference of CDF
	ulp := math.Nextafter(math.Abs(c.Mu)+40*c.Sigma, math.Inf(1)) - (math.Abs(c.Mu) + 40*c.Sigma)
	if ulp/c.Sigma < 6.6e-9 {
		for i := 0; i+1 < len(xs); i++ {
			if xs[i+1] <= xs[i] {
				continue
			}
			in := ref.Integrate20(d.PDF, xs[i], xs[i+1])
			if !r.Err("N-integral", math.Abs(in-(cdf[i+1]-cdf[i])), 1e-9) {
				r.Fail("N-integral", "Normal{%v,%v}: integral of PDF over [%v,%v] = %v, CDF difference %v", c.Mu, c.Sigma, xs[i], xs[i+1], in, cdf[i+1]-cdf[i])
			}
		}
		// a long interval too
		in := 0.0
		for i := 0; i+1 < len(xs); i++ {
			in += ref.Integrate20(d.PDF, xs[i], xs[i+1])
		}
		if !r.Err("N-integral-total", math.Abs(in-1), 1e-9) {
			r.Fail("N-integral-total", "total mass over +-40 sigma = %v", in)
		}
	} else {
		r.Skip("integral check: argument grid cannot resolve the density")
	}
	// InvCDF
	for _, p := range c05PLattice() {
		x := d.InvCDF(p)
		r.Trans(1)
		zr := ref.NormQuantile(p)
		zf := ref.ToF(zr)
		if math.Abs(zf)*(math.Abs(c.Mu)/c.Sigma)*0x1p-52 < 1e-10 {
			back := d.CDF(x)
			if !r.Err("N-roundtrip", math.Abs(back-p)/p, 1e-9) {
				r.Fail("N-roundtrip", "Normal{%v,%v}: CDF(InvCDF(%v))=%v (InvCDF=%v)", c.Mu, c.Sigma, p, back, x)
			}
			continue
		}
		// The quantile is not representable well enough for the round trip to
		// be meaningful: compare x with the high-precision quantile instead,
		// with the tolerance the round-trip demand translates to (1e-9 p / density).
		wantX := new(big.Float).SetPrec(256).Mul(zr, new(big.Float).SetPrec(256).SetFloat64(c.Sigma))
		wantX.Add(wantX, new(big.Float).SetPrec(256).SetFloat64(c.Mu))
		wx := ref.ToF(wantX)
		dens := math.Exp(-zf*zf/2) / math.Sqrt(2*math.Pi) / c.Sigma
		tol := 2*(math.Nextafter(math.Abs(wx), math.Inf(1))-math.Abs(wx)) + 1e-9*p/dens + 4*ref.Eps*math.Abs(c.Mu)
		if !r.Err("N-InvCDF", math.Abs(x-wx), tol) {
			r.Fail("N-InvCDF", "Normal{%v,%v}.InvCDF(%v)=%v, reference %v", c.Mu, c.Sigma, p, x, wx)
		}
	}
	if a, b := d.InvCDF(0), d.InvCDF(1); !math.IsInf(a, -1) || !math.IsInf(b, 1) {
		r.Fail("N-InvCDF-ends", "InvCDF(0)=%v InvCDF(1)=%v", a, b)
	}
	for _, p := range []float64{-0.1, 1.1, -1e-300, 1 + 0x1p-52, math.Inf(1)} {
		if x := d.InvCDF(p); !math.IsNaN(x) {
			r.Fail("N-InvCDF-NaN", "InvCDF(%v)=%v want NaN", p, x)
		}
	}
	// moments, bounds, Rand
	if d.Mean() != c.Mu || d.Variance() != c.Sigma*c.Sigma {
		r.Fail("N-moments", "Mean=%v Variance=%v", d.Mean(), d.Variance())
	}
	lo, hi := d.Bounds()
	if !(lo < c.Mu && c.Mu < hi) || math.Abs((c.Mu-lo)-(hi-c.Mu)) > 1e-9*c.Sigma+4*ref.Eps*math.Abs(c.Mu) || d.CDF(hi)-d.CDF(lo) < 0.99 {
		r.Fail("N-Bounds", "Bounds()=(%v,%v) for Normal{%v,%v}", lo, hi, c.Mu, c.Sigma)
	}
	for seed := int64(1); seed <= 3; seed++ {
		a, b := rand.New(rand.NewSource(seed)), rand.New(rand.NewSource(seed))
		for i := 0; i < 8; i++ {
			got, want := d.Rand(a), b.NormFloat64()*c.Sigma+c.Mu
			if !sameF(got, want) {
				r.Fail("N-Rand", "Rand draw %d with seed %d = %v, NormFloat64()*Sigma+Mu = %v", i, seed, got, want)
			}
		}
	}
	normalNilRand(d.Rand, c.Mu, c.Sigma, r, "N-Rand-nil", fmt.Sprintf("NormalDist{%v,%v}.Rand(nil)", c.Mu, c.Sigma))
}

// normalNilRand checks draws taken with a nil source (math/rand's global
// source). Where the global source can be seeded the draws are compared bit for
// bit with NormFloat64()*Sigma+Mu from a twin generator; in any case 64 draws,
// standardised with Mu and Sigma, must look like standard normal draws (bounds
// so wide that a correct implementation fails with probability < 1e-30).
func normalNilRand(draw func(*rand.Rand) float64, mu, sigma float64, r *core.Rec, name, tag string) {
	const seed = 20260926
	rand.Seed(seed)
	probe := rand.Int63()
	twin := rand.New(rand.NewSource(seed))
	if probe == twin.Int63() {
		rand.Seed(seed)
		twin = rand.New(rand.NewSource(seed))
		for i := 0; i < 8; i++ {
			got, want := draw(nil), twin.NormFloat64()*sigma+mu
			r.Trans(1)
			if !sameF(got, want) {
				r.Fail(name, "%s: draw %d from the global source seeded %d = %v, NormFloat64()*Sigma+Mu = %v", tag, i, seed, got, want)
				return
			}
		}
		r.Count("rand_nil_seeded", 1)
	} else {
		r.Count("rand_nil_seed_ineffective", 1)
	}
	if !(sigma > 0) || math.IsInf(sigma, 0) || math.IsInf(mu, 0) {
		return
	}
	const n = 64
	var s1, s2 float64
	for i := 0; i < n; i++ {
		z := (draw(nil) - mu) / sigma
		r.Trans(1)
		if !(math.Abs(z) <= 40) {
			r.Fail(name, "%s: a draw lies %v standard deviations from Mu", tag, z)
			return
		}
		s1 += z
		s2 += z * z
	}
	// the mean is only resolved to eps*|Mu|/Sigma in standardised units
	res := 4 * ref.Eps * math.Abs(mu) / sigma
	if m := s1 / n; math.Abs(m) > 1.5+res {
		r.Fail(name, "%s: the standardised mean of %d draws is %v (12 standard errors = 1.5)", tag, n, m)
	}
	if res < 0.01 {
		if v := s2 / n; v < 0.1 || v > 5 {
			r.Fail(name, "%s: the standardised second moment of %d draws is %v, want about 1", tag, n, v)
		}
	}
}

func c05TRef(v, x float64) float64 {
	if isInt(v) {
		return ref.ToF(ref.TCDFInt(x, int(v)))
	}
	if x*x <= v/4 && x*x <= 4 {
		// gonum uses the same 1 - I(v/(v+x^2)) form as the library and shares
		// its cancellation near x = 0; the Maclaurin series does not. (For large V the
		// series is only used for |x| <= 2: its terms grow like those of exp(-x^2/2).)
		return ref.TCDFSeries(x, v)
	}
	if v >= 20 {
		// gonum's incomplete beta loses the far tail for large first parameters (and
		// overflows Gamma from V ~ 340): integrate the density instead.
		return c05TTail(v, x)
	}
	return distuv.StudentsT{Mu: 0, Sigma: 1, Nu: v}.CDF(x)
}

// c05TTail evaluates the t CDF for V >= 20 by composite 20-point Gauss-Legendre
// quadrature of the density over the tail beyond |x| (the density is smooth and
// decays at least like |t|^-21 there; the tail beyond |x|+span is < 1e-30).
func c05TTail(v, x float64) float64 {
	lg1, _ := math.Lgamma((v + 1) / 2)
	lg2, _ := math.Lgamma(v / 2)
	lc := lg1 - lg2 - 0.5*math.Log(v*math.Pi)
	pdf := func(t float64) float64 { return math.Exp(lc - (v+1)/2*math.Log1p(t*t/v)) }
	a := math.Abs(x)
	span := 60 * math.Sqrt(v/(v-2)) * (1 + a/8)
	const panels = 600
	q := 0.0
	for i := 0; i < panels; i++ {
		// geometric-ish panels: fine near a, wider further out
		lo := a + span*math.Pow(float64(i)/panels, 2)
		hi := a + span*math.Pow(float64(i+1)/panels, 2)
		q += ref.Integrate20(pdf, lo, hi)
	}
	if x < 0 {
		return q
	}
	return 1 - q
}

func c05T(c *C05T, r *core.Rec) {
	d := stats.TDist{V: c.V}
	r.NT()
	var xs []float64
	for k := -320; k <= 320; k++ {
		xs = append(xs, float64(k)/8)
	}
	for j := 2; j <= 8; j++ {
		xs = append(xs, math.Pow(10, float64(j)), -math.Pow(10, float64(j)))
	}
	// near zero: the region where v/(v+x^2) rounds to 1
	for j := 1; j <= 48; j++ {
		t := math.Pow(10, -float64(j)/4)
		xs = append(xs, t, -t)
	}
	xs = append(xs, 5e-324, -5e-324, 1e-300, -1e-300)
	sortF(xs)
	cdf := make([]float64, len(xs))
	prev := 0.0
	for i, x := range xs {
		g := d.CDF(x)
		cdf[i] = g
		r.Trans(1)
		r.OutcomeF(g)
		want := c05TRef(c.V, x)
		if isInt(c.V) && c.V >= 20 && x*x > 4 {
			r.Err("oracle-vs-closed-form(t quadrature)", math.Abs(c05TTail(c.V, x)-want), 1e-11)
			r.Valid(1)
		}
		if isInt(c.V) && c.V <= 100 && x*x > c.V/4 {
			// measure the non-integer oracle against the closed form where both exist
			r.Err("oracle-vs-closed-form(t)", math.Abs(distuv.StudentsT{Mu: 0, Sigma: 1, Nu: c.V}.CDF(x)-want), 1e-10)
			r.Valid(1)
		}
		if !r.Err("T-CDF", math.Abs(g-want), 1e-9) {
			r.Fail("T-CDF", "TDist{%v}.CDF(%v)=%v, reference %v", c.V, x, g, want)
		}
		if g < 0 || g > 1 || math.IsNaN(g) {
			r.Fail("T-CDF-range", "CDF(%v)=%v", x, g)
		}
		if g < prev-1e-11 {
			r.Fail("T-CDF-monotone", "TDist{%v}.CDF drops from %v to %v at x=%v", c.V, prev, g, x)
		}
		prev = g
		if s := g + d.CDF(-x); !r.Err("T-symmetry", math.Abs(s-1), 1e-12) {
			r.Fail("T-symmetry", "TDist{%v}: CDF(%v)+CDF(%v)=%v", c.V, x, -x, s)
		}
		if p := d.PDF(x); p < 0 || math.IsNaN(p) {
			r.Fail("T-PDF-negative", "PDF(%v)=%v", x, p)
		}
	}
	if lo, hi := d.CDF(math.Inf(-1)), d.CDF(math.Inf(1)); lo != 0 || hi != 1 {
		r.Fail("T-CDF-limits", "CDF(-Inf)=%v CDF(+Inf)=%v", lo, hi)
	}
	for i := 0; i+1 < len(xs); i++ {
		if xs[i+1]-xs[i] > 0.2 {
			continue // only the k/8 cells: the rule is exact to rounding there
		}
		in := ref.Integrate20(d.PDF, xs[i], xs[i+1])
		if !r.Err("T-integral", math.Abs(in-(cdf[i+1]-cdf[i])), 1e-9) {
			r.Fail("T-integral", "TDist{%v}: integral of PDF over [%v,%v] = %v, CDF difference %v", c.V, xs[i], xs[i+1], in, cdf[i+1]-cdf[i])
		}
	}
	lo, hi := d.Bounds()
	if !(lo < 0 && hi > 0 && lo == -hi) {
		r.Fail("T-Bounds", "Bounds()=(%v,%v)", lo, hi)
	}
}

func sortF(x []float64) {
	for i := 1; i < len(x); i++ {
		for k := i; k > 0 && x[k] < x[k-1]; k-- {
			x[k], x[k-1] = x[k-1], x[k]
		}
	}
}

func c05Delta(c *C05Delta, r *core.Rec) {
	d := stats.DeltaDist{T: c.T}
	r.NT()
	below, above := math.Nextafter(c.T, math.Inf(-1)), math.Nextafter(c.T, math.Inf(1))
	for _, t := range []struct{ x, cdf float64 }{{c.T, 1}, {below, 0}, {above, 1}, {c.T - 1, 0}, {c.T + 1, 1}, {math.Inf(-1), 0}, {math.Inf(1), 1}, {-1e300, 0}, {1e300, 1}} {
		if g := d.CDF(t.x); g != t.cdf {
			r.Fail("Delta-CDF", "Delta{%v}.CDF(%v)=%v want %v", c.T, t.x, g, t.cdf)
		}
		r.Trans(1)
	}
	if p := d.PDF(c.T); !math.IsInf(p, 1) {
		r.Fail("Delta-PDF", "PDF(T)=%v", p)
	}
	if p := d.PDF(above); p != 0 {
		r.Fail("Delta-PDF", "PDF(T+)=%v", p)
	}
	for _, y := range []float64{0, 1e-300, 0.3, 0.5, 1 - 0x1p-53, 1} {
		if x := d.InvCDF(y); x != c.T {
			r.Fail("Delta-InvCDF", "InvCDF(%v)=%v want %v", y, x, c.T)
		}
		if x := stats.InvCDF(d)(y); x != c.T {
			r.Fail("Delta-InvCDF-generic", "stats.InvCDF(delta)(%v)=%v want %v", y, x, c.T)
		}
	}
	for _, y := range []float64{-0.1, 1.1} {
		if x := d.InvCDF(y); !math.IsNaN(x) {
			r.Fail("Delta-InvCDF-NaN", "InvCDF(%v)=%v want NaN", y, x)
		}
	}
	lo, hi := d.Bounds()
	if !(lo <= c.T && c.T <= hi) {
		r.Fail("Delta-Bounds", "Bounds()=(%v,%v) do not contain T=%v", lo, hi, c.T)
	}
}

func c05Run(c *core.Ctx) {
	r := c.R
	mus := []float64{-1e6, -3.5, 0, 2, 1e6}
	sigmas := []float64{1e-6, 0.5, 1, 3, 1e6}
	vs := []float64{0.1, 0.25, 0.37, 0.5, 1, 1.5, 2, 3, 4.5, 7.3, 10, 30, 33.3, 100, 128.4, 250.5, 341.5, 1e3, 2500.5, 1e4}
	if c.Thorough() {
		mus = append(mus, -1, 1e-3, 123.456, 1e3)
		sigmas = append(sigmas, 1e-3, 0.1, 7, 1e3)
		vs = append(vs, 0.15, 0.75, 2.5, 4, 5, 7, 20, 50, 300, 5000)
	}
	nc := &C05Normal{}
	for _, mu := range mus {
		for _, s := range sigmas {
			if !c.Mine() {
				continue
			}
			nc.Mu, nc.Sigma = mu, s
			r.Case("normal", nc)
			r.Try(func() { c05Normal(nc, r) })
		}
	}
	tc := &C05T{}
	for _, v := range vs {
		if !c.Mine() {
			continue
		}
		tc.V = v
		r.Case("t", tc)
		r.Try(func() { c05T(tc, r) })
	}
	dc := &C05Delta{}
	for _, t := range []float64{-1e6, -0.3, 0, 0.3, 1e6} {
		if !c.Mine() {
			continue
		}
		dc.T = t
		r.Case("delta", dc)
		r.Try(func() { c05Delta(dc, r) })
	}
	r.Bound("lattice", fmt.Sprintf("%d x %d normals x 641 x + 277 p; %d t distributions x 655 x; 5 deltas", len(mus), len(sigmas), len(vs)))
}
