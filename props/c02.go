package props

import (
	"fmt"
	"math"

	"github.com/aclements/go-moremath/stats"

	"verif/mc/core"
	"verif/mc/enum"
	"verif/mc/ref"
)

// C02 — UDist is the exact null distribution of U for every tie vector.

// C02Case is one distribution. T == nil means "no ties".
type C02Case struct {
	N1   int   `json:"n1"`
	N2   int   `json:"n2"`
	T    []int `json:"t"`
	Grid int   `json:"grid_stride,omitempty"` // 0/1: every half-integer; k: every k-th (big families)
}

func init() {
	core.Register(&core.Prop{
		ID:    "C02",
		Title: "UDist is the exact null distribution of U for every tie vector",
		Run:   c02Run,
		Kinds: []core.Kind{core.ReplayOf("udist", c02Check)},
		Rule: "every (N1,N2,T) with N1+N2 <= bound (T = nil, all-ones and every composition into >=2 parts) plus complete structured families of larger sizes; " +
			"for each, PMF/CDF on the whole half-integer grid -1..N1*N2+1 and at g-1ulp, g+1ulp, g+0.25, g+0.4999, and at +-{1e6, 2^31, 2^32, 2^53, 2^62, 2^63, 2^64, 1e19, 1e300, MaxFloat64}; oracle = exact big.Int counts (DP over rank classes, itself validated against literal subset enumeration). " +
			"For N1+N2<=12 every distribution is also queried, at every grid point, after its tie slice was rewritten in place to the reversed vector (4 query pairs x 2 directions). A case is non-trivial when T has a tie (the Klotz path) or N1,N2 >= 2.",
		Technique: "bounded-exhaustive input enumeration of the real UDist against an exact big.Int reference model validated by definitional subset enumeration",
		Assumptions: []string{
			"PMF is only constrained at attainable points (non-zero exact count), as the statement says",
			"monotonicity slack 1e-11, accuracy tolerance 1e-9 (statement)",
			"larger sizes are covered by complete structured families (all K=2 and K=3 tie vectors, uniform tie vectors, untied rim pairs), not random draws",
		},
	})
}

const (
	c02Tol  = 1e-9
	c02Mono = 1e-11
)

func c02Check(c *C02Case, r *core.Rec) {
	n1, n2 := c.N1, c.N2
	u := ref.UCounts(n1, n2, c.T)
	d := stats.UDist{N1: n1, N2: n2, T: c.T}
	dm := stats.UDist{N1: n2, N2: n1, T: c.T}
	maxV := 2 * n1 * n2
	stride := c.Grid
	if stride < 1 {
		stride = 1
	}
	hasTies := false
	for _, t := range c.T {
		if t > 1 {
			hasTies = true
		}
	}
	if hasTies || (n1 >= 2 && n2 >= 2) {
		r.NT()
	}
	lo, hi := d.Bounds()
	if lo != 0 || hi != float64(n1*n2) {
		r.Fail("Bounds", "Bounds()=(%v,%v), want (0,%d)", lo, hi, n1*n2)
	}
	if d.Step() != 0.5 {
		r.Fail("Step", "Step()=%v, want 0.5", d.Step())
	}
	sum := 0.0
	prev := 0.0
	calls := int64(0)
	for v := -2; v <= maxV+2; v++ {
		onStride := v <= 4 || v >= maxV-4 || v%stride == 0
		if !onStride {
			continue
		}
		U := float64(v) / 2
		// CDF on and off the grid: a right-continuous step function.
		want := u.LE(v)
		// one ulp below a grid point the mass at the point is not yet included
		if below := math.Nextafter(U, math.Inf(-1)); true {
			got := d.CDF(below)
			calls++
			if !r.Err("CDF", math.Abs(got-u.LE(v-1)), c02Tol) {
				r.Fail("CDF-left-limit", "UDist{%d,%d,%v}.CDF(nextafter(%v,-Inf))=%v, exact mass at points <= it is %v", n1, n2, c.T, U, got, u.LE(v-1))
			}
			if below < 0 && got != 0 {
				r.Fail("CDF-below", "CDF(%v)=%v, want exactly 0", below, got)
			}
			if got < prev-c02Mono {
				r.Fail("CDF-monotone", "CDF drops from %v to %v at %v", prev, got, below)
			}
			prev = got
		}
		for _, off := range []float64{0, 5e-324, 0.25, 0.4999} {
			x := U + off
			if off == 5e-324 {
				x = math.Nextafter(U, math.Inf(1))
			}
			got := d.CDF(x)
			calls++
			if !r.Err("CDF", math.Abs(got-want), c02Tol) {
				r.Fail("CDF", "UDist{%d,%d,%v}.CDF(%v)=%v, exact %v", n1, n2, c.T, x, got, want)
			}
			if x < 0 && got != 0 {
				r.Fail("CDF-below", "CDF(%v)=%v, want exactly 0", x, got)
			}
			if x >= float64(n1*n2) && got != 1 {
				r.Fail("CDF-above", "CDF(%v)=%v, want exactly 1", x, got)
			}
			if got < prev-c02Mono {
				r.Fail("CDF-monotone", "CDF drops from %v to %v at %v", prev, got, x)
			}
			if got < -1e-12 || got > 1+1e-12 || math.IsNaN(got) {
				r.Fail("CDF-range", "CDF(%v)=%v outside [0,1]", x, got)
			}
			prev = got
			r.OutcomeF(got)
		}
		if u.Attainable(v) {
			got := d.PMF(U)
			calls++
			if !r.Err("PMF", math.Abs(got-u.PMF(v)), c02Tol) {
				r.Fail("PMF", "UDist{%d,%d,%v}.PMF(%v)=%v, exact %v", n1, n2, c.T, U, got, u.PMF(v))
			}
			sum += got
			// mirror law against the swapped distribution
			gm := dm.PMF(float64(n1*n2) - U)
			calls++
			if !r.Err("mirror-PMF", math.Abs(got-gm), 2*c02Tol) {
				r.Fail("mirror-PMF", "PMF_{%d,%d}(%v)=%v but PMF_{%d,%d}(%v)=%v", n1, n2, U, got, n2, n1, float64(n1*n2)-U, gm)
			}
		}
		// mirror law for the CDF: F_{N1,N2}(u) = 1 - F_{N2,N1}((N1N2 - u) - 1/2) on the grid
		gc := 1 - dm.CDF(float64(n1*n2)-U-0.5)
		calls++
		if !r.Err("mirror-CDF", math.Abs(gc-want), 2*c02Tol) {
			r.Fail("mirror-CDF", "1-CDF_{%d,%d}(%v)=%v, exact CDF_{%d,%d}(%v)=%v", n2, n1, float64(n1*n2)-U-0.5, gc, n1, n2, U, want)
		}
	}
	// far outside the support, up to the largest finite real
	for _, x := range []float64{1e6, 1 << 31, 1 << 32, 1 << 53, 1 << 62, 1 << 63, 1 << 64, 1e19, 1e300, math.MaxFloat64} {
		calls += 2
		if got := d.CDF(x); x >= float64(n1*n2) && got != 1 {
			r.Fail("CDF-far-above", "UDist{%d,%d,%v}.CDF(%v)=%v, want exactly 1", n1, n2, c.T, x, got)
		}
		if got := d.CDF(-x); got != 0 {
			r.Fail("CDF-far-below", "UDist{%d,%d,%v}.CDF(%v)=%v, want exactly 0", n1, n2, c.T, -x, got)
		}
	}
	if n1+n2 <= 12 && len(c.T) >= 2 {
		calls += c02Rewrite(c, r)
	}
	if n1+n2 <= 12 && c.T == nil {
		calls += c02Alternate(c, r)
	}
	if stride == 1 {
		if !r.Err("mass", math.Abs(sum-1), c02Tol) {
			r.Fail("mass", "sum of PMF over attainable points = %v", sum)
		}
	}
	r.Trans(calls)
}

// c02Rewrite: the tie slice belongs to the caller. After it is rewritten in
// place (same length, same total) a query at the same point must answer for the
// tie vector now in the slice, whatever was asked before.
func c02Rewrite(c *C02Case, r *core.Rec) (calls int64) {
	n1, n2 := c.N1, c.N2
	T2 := make([]int, len(c.T))
	for i, t := range c.T {
		T2[len(c.T)-1-i] = t
	}
	same := true
	for i := range T2 {
		if T2[i] != c.T[i] {
			same = false
		}
	}
	if same { // palindromic: move one unit between the two ends instead
		if T2[0] < 2 {
			return 0
		}
		T2[0]--
		T2[len(T2)-1]++
	}
	us := [2]*ref.UNull{ref.UCounts(n1, n2, c.T), ref.UCounts(n1, n2, T2)}
	vecs := [2][]int{c.T, T2}
	buf := make([]int, len(c.T))
	d := stats.UDist{N1: n1, N2: n2, T: buf}
	for v := 0; v <= 2*n1*n2; v++ {
		U := float64(v) / 2
		for _, q := range []string{"CDF,CDF", "PMF,CDF", "CDF,PMF+", "PMF,PMF"} {
			for first := 0; first < 2; first++ {
				copy(buf, vecs[first])
				if q[:3] == "CDF" {
					d.CDF(U)
				} else {
					d.PMF(U)
				}
				copy(buf, vecs[1-first]) // rewrite in place
				u := us[1-first]
				var got, want float64
				var what string
				switch q[4:] {
				case "CDF":
					got, want, what = d.CDF(U), u.LE(v), fmt.Sprintf("CDF(%v)", U)
				case "PMF+":
					if !u.Attainable(v + 1) {
						continue
					}
					got, want, what = d.PMF(U+0.5), u.PMF(v+1), fmt.Sprintf("PMF(%v)", U+0.5)
				default:
					if !u.Attainable(v) {
						continue
					}
					got, want, what = d.PMF(U), u.PMF(v), fmt.Sprintf("PMF(%v)", U)
				}
				calls += 2
				if !r.Err("rewrite", math.Abs(got-want), c02Tol) {
					r.Fail("T-rewritten-in-place", "UDist{%d,%d,T}: after a %s query with T=%v the slice was rewritten to %v; %s=%v, exact %v", n1, n2, q[:3], vecs[first], vecs[1-first], what, got, want)
					return
				}
			}
		}
	}
	return
}

// c02Alternate: distributions of neighbouring sizes are queried alternately at the
// same points (untied path): each answers for its own sizes.
func c02Alternate(c *C02Case, r *core.Rec) (calls int64) {
	n1, n2 := c.N1, c.N2
	type dd struct {
		d stats.UDist
		u *ref.UNull
	}
	var ds []dd
	for _, sz := range [][2]int{{n1, n2}, {n1, n2 + 1}, {n1, n2 + 3}, {n1 + 1, n2}, {n2 + 2, n1}} {
		ds = append(ds, dd{stats.UDist{N1: sz[0], N2: sz[1]}, c03Null(sz[0], sz[1], nil)})
	}
	for v := 0; v <= 2*n1*n2+2; v += 2 {
		U := float64(v) / 2
		for round := 0; round < 2; round++ {
			for _, x := range ds {
				var got, want float64
				var what string
				if round == 0 {
					got, want, what = x.d.CDF(U), x.u.LE(v), "CDF"
				} else {
					if !x.u.Attainable(v) {
						continue
					}
					got, want, what = x.d.PMF(U), x.u.PMF(v), "PMF"
				}
				calls++
				if !r.Err("alternate", math.Abs(got-want), c02Tol) {
					r.Fail("sizes-alternated", "UDist{%d,%d}.%s(%v)=%v while distributions of sizes around {%d,%d} are queried alternately; exact %v", x.d.N1, x.d.N2, what, U, got, n1, n2, want)
					return
				}
			}
		}
	}
	return
}

// c02Conformance validates the reference model against the definition.
func c02Conformance(c *C02Case, r *core.Rec) {
	u := ref.UCounts(c.N1, c.N2, c.T)
	def := ref.USubsets(c.N1, c.N2, c.T)
	for v := range def {
		if u.Count[v].Int64() != def[v] || !u.Count[v].IsInt64() {
			r.Fail("model-vs-definition", "reference count at 2U=%d is %v, subset enumeration gives %d", v, u.Count[v], def[v])
			return
		}
		// exact mirror symmetry of the reference itself
	}
	um := ref.UCounts(c.N2, c.N1, c.T)
	for v := range u.Count {
		if u.Count[v].Cmp(um.Count[len(um.Count)-1-v]) != 0 {
			r.Fail("model-mirror", "reference counts are not mirror images at 2U=%d", v)
			return
		}
	}
	r.Valid(1)
}

func c02Run(c *core.Ctx) {
	r := c.R
	maxN, confN := 10, 9
	if c.Thorough() {
		maxN, confN = 14, 12
	}
	cs := &C02Case{}
	do := func(n1, n2 int, T []int, stride int) {
		cs.N1, cs.N2, cs.T, cs.Grid = n1, n2, T, stride
		r.Case("udist", cs)
		r.Try(func() { c02Check(cs, r) })
	}
	for N := 2; N <= maxN; N++ {
		for n1 := 1; n1 < N; n1++ {
			n2 := N - n1
			if c.Mine() {
				do(n1, n2, nil, 1)
				if N <= confN {
					cs.N1, cs.N2, cs.T = n1, n2, nil
					r.Case("conformance", cs)
					r.Try(func() { c02Conformance(cs, r) })
				}
			}
			enum.Compositions(N, 2, func(T []int) {
				if !c.Mine() {
					return
				}
				do(n1, n2, T, 1)
				if N <= confN {
					cs.N1, cs.N2, cs.T = n1, n2, T
					r.Case("conformance", cs)
					r.Try(func() { c02Conformance(cs, r) })
				}
			})
		}
	}
	r.Bound("exhaustive", fmt.Sprintf("N1+N2<=%d, every T", maxN))
	r.Bound("model_conformance", fmt.Sprintf("N1+N2<=%d, literal subset enumeration", confN))

	// --- larger sizes: complete structured families ---------------------------
	// untied
	untiedMax, k2Max, k3Max := 14, 10, 12
	var rim []int
	if c.Thorough() {
		untiedMax, k2Max, k3Max = 24, 25, 20
		rim = []int{1, 2, 25, 26, 49, 50}
	} else {
		// 38..50: where exact counts exceed 2^64 (an implementation that
		// counts in machine integers overflows only from here on)
		rim = []int{1, 30, 38, 45, 50}
	}
	for n1 := 1; n1 <= untiedMax; n1++ {
		for n2 := 1; n2 <= untiedMax; n2++ {
			if n1+n2 > maxN && c.Mine() {
				do(n1, n2, nil, 1)
			}
		}
	}
	for _, n1 := range rim {
		for _, n2 := range rim {
			if (n1 > untiedMax || n2 > untiedMax) && c.Mine() {
				st := 2 * (n1*n2/64 + 1)
				do(n1, n2, nil, st)
			}
		}
	}
	// all two-valued pools
	for n1 := 1; n1 <= k2Max; n1++ {
		for n2 := 1; n2 <= k2Max; n2++ {
			N := n1 + n2
			if N <= maxN {
				continue
			}
			for a := 1; a < N; a++ {
				if c.Mine() {
					st := 1
					if n1*n2 > 150 {
						st = n1*n2/64 + 1
					}
					do(n1, n2, []int{a, N - a}, st)
				}
			}
		}
	}
	// all three-valued pools
	for N := maxN + 1; N <= k3Max; N++ {
		for n1 := 1; n1 < N; n1++ {
			for a := 1; a < N-1; a++ {
				for b := 1; a+b < N; b++ {
					if c.Mine() {
						do(n1, N-n1, []int{a, b, N - a - b}, n1*(N-n1)/32+1)
					}
				}
			}
		}
	}
	// uniform tie vectors [m,m,...,m]
	mMax, sideMax := 3, 12
	if c.Thorough() {
		mMax, sideMax = 5, 25
	}
	for m := 2; m <= mMax; m++ {
		for K := 2; K*m <= 2*sideMax; K++ {
			N := K * m
			if N <= maxN {
				continue
			}
			T := make([]int, K)
			for i := range T {
				T[i] = m
			}
			for _, n1 := range []int{1, N / 3, N / 2} {
				if n1 < 1 || N-n1 > sideMax || n1 > sideMax {
					continue
				}
				if c.Mine() {
					do(n1, N-n1, T, n1*(N-n1)/24+1)
				}
			}
		}
	}
	// tied pools beyond 36 values with a side of 13..25 (binomial coefficients C(n,13..25),
	// n >= 36, enter the tied recursion only here)
	for _, sz := range [][2]int{{13, 25}, {25, 13}, {25, 25}, {20, 30}} {
		N := sz[0] + sz[1]
		two := make([]int, N-2) // two tied pairs, everything else distinct
		for i := range two {
			two[i] = 1
		}
		two[0], two[len(two)-1] = 2, 2
		for _, T := range [][]int{two, {N / 2, N - N/2}, {1, 1, N - 2}, {N - 13, 13}} {
			if c.Mine() {
				do(sz[0], sz[1], T, sz[0]*sz[1]/16+1)
			}
		}
	}
	r.Bound("families", fmt.Sprintf("tied pools of 38..50 values at 4 size pairs x 4 tie vectors; untied all pairs<=%d + rim %v; all K=2 pools sides<=%d; all K=3 pools N<=%d; uniform ties m<=%d sides<=%d", untiedMax, rim, k2Max, k3Max, mMax, sideMax))
}

func init() {
	p := core.Lookup("C02")
	p.Kinds = append(p.Kinds, core.ReplayOf("conformance", c02Conformance))
}
