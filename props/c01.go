package props

import (
	"fmt"
	"math"

	"github.com/aclements/go-moremath/stats"

	"verif/mc/core"
	"verif/mc/enum"
	"verif/mc/ref"
)

// C01 — Mann-Whitney exact test: U is the pair count, P the exact permutation tail.

// C01Case is an equivalence class of sample pairs: tie vector T and
// allocation R (R[k] of the T[k] pooled values at rank k belong to sample 1).
type C01Case struct {
	T []int `json:"t"`
	R []int `json:"r"`
}

func init() {
	core.Register(&core.Prop{
		ID:    "C01",
		Title: "Mann-Whitney exact test: U is the pair count, P the exact permutation tail",
		Run:   c01Run,
		Kinds: []core.Kind{core.ReplayOf("class", c01Check)},
		Rule: "every (tie vector T, allocation r) with n1+n2 <= bound, i.e. every pair of samples up to order and strictly increasing relabelling, each in 3 arrangements x 3 alternatives, plus two signed-zero materialisations of a tied class (-0 and +0 mixed) and, for n1+n2<=12, four pairs of overlapping windows of one series (aliased arguments); " +
			"plus complete structured families up to 50+50 untied / 25+25 tied; oracle = pair-count U and exact big.Int tail probabilities. Non-trivial: a tie is present or both tails are non-empty.",
		Technique: "bounded-exhaustive input enumeration of the real MannWhitneyUTest against an exact permutation-distribution model",
		Assumptions: []string{
			"default MannWhitneyExactLimit / MannWhitneyTiesExactLimit (configurations are C03's job)",
			"tolerance 1e-9 on P, U exact",
			"known finding mw-two-sided-asym is matched only by its signature P_impl = 2*F_exact(min(U,N1N2-U))",
		},
	})
}

var c01Cache struct {
	key string
	u   *ref.UNull
}

func c01Null(n1, n2 int, T []int) *ref.UNull {
	key := fmt.Sprint(n1, n2, T)
	if c01Cache.key == key {
		return c01Cache.u
	}
	u := ref.UCounts(n1, n2, T)
	c01Cache.key, c01Cache.u = key, u
	return u
}

// c01Samples materialises the class with values 0,1,2,… per rank.
func c01Samples(T, R []int) (x1, x2 []float64) {
	for k, t := range T {
		for i := 0; i < R[k]; i++ {
			x1 = append(x1, float64(k))
		}
		for i := 0; i < t-R[k]; i++ {
			x2 = append(x2, float64(k))
		}
	}
	return
}

func reversed(x []float64) []float64 {
	y := make([]float64, len(x))
	for i, v := range x {
		y[len(x)-1-i] = v
	}
	return y
}

// riffle interleaves the two halves of x (a fixed non-monotone arrangement).
func riffle(x []float64) []float64 {
	y := make([]float64, 0, len(x))
	h := (len(x) + 1) / 2
	for i := 0; i < h; i++ {
		y = append(y, x[len(x)-1-i])
		if i < len(x)-h {
			y = append(y, x[len(x)-h-1-i])
		}
	}
	// y has the elements of x: top half descending interleaved with bottom half descending
	if len(y) != len(x) {
		panic("riffle")
	}
	return y
}

var c01Alts = []stats.LocationHypothesis{stats.LocationLess, stats.LocationDiffers, stats.LocationGreater}

// mwExactExpected returns the exact p-value of the statement for alt.
func mwExactExpected(u *ref.UNull, twoU int, alt stats.LocationHypothesis) float64 {
	le, ge := u.LE(twoU), u.GE(twoU)
	switch alt {
	case stats.LocationLess:
		return le
	case stats.LocationGreater:
		return ge
	}
	return math.Min(1, 2*math.Min(le, ge))
}

// mwKnownTwoSided returns what the known-defective two-sided formula yields
// from the exact reference quantities.
func mwKnownTwoSided(u *ref.UNull, twoU int) float64 {
	other := 2*u.N1*u.N2 - twoU
	if twoU == other {
		return 1
	}
	if other < twoU {
		twoU = other
	}
	return 2 * u.LE(twoU)
}

func c01Check(c *C01Case, r *core.Rec) {
	x1a, x2a := c01Samples(c.T, c.R)
	n1, n2 := len(x1a), len(x2a)
	if n1 == 0 || n2 == 0 || len(c.T) < 2 {
		r.Skip("outside domain (empty side or all equal)")
		return
	}
	u := c01Null(n1, n2, c.T)
	twoU := ref.PairU(x1a, x2a)
	ties := false
	for _, t := range c.T {
		if t > 1 {
			ties = true
		}
	}
	if ties || (twoU > 0 && twoU < 2*n1*n2) {
		r.NT()
	}
	arr := [][2][]float64{{x1a, x2a}, {reversed(x1a), reversed(x2a)}, {riffle(x1a), riffle(x2a)}}
	for ai, xs := range arr {
		for _, alt := range c01Alts {
			res, err := stats.MannWhitneyUTest(xs[0], xs[1], alt)
			r.Trans(1)
			if err != nil || res == nil {
				r.Fail("error", "arrangement %d alt %v: unexpected error %v", ai, alt, err)
				continue
			}
			if res.N1 != n1 || res.N2 != n2 || res.AltHypothesis != alt {
				r.Fail("fields", "N1,N2,Alt = %d,%d,%v want %d,%d,%v", res.N1, res.N2, res.AltHypothesis, n1, n2, alt)
			}
			if res.U*2 != float64(twoU) {
				r.Fail("U", "arrangement %d: U=%v, pair count gives %v", ai, res.U, float64(twoU)/2)
			}
			want := mwExactExpected(u, twoU, alt)
			r.OutcomeF(res.P)
			if r.Err("P-"+alt.String(), math.Abs(res.P-want), 1e-9) {
				continue
			}
			if alt == stats.LocationDiffers && math.Abs(res.P-mwKnownTwoSided(u, twoU)) <= 1e-9 {
				r.KnownHit("mw-two-sided-asym", "x1=%v x2=%v two-sided: P=%v, exact %v (P equals 2*F(min(U,N1N2-U)), the symmetric-null shortcut)", x1a, x2a, res.P, want)
				continue
			}
			r.Fail("P-"+alt.String(), "x1=%v x2=%v alt=%v: P=%v, exact %v (U=%v)", xs[0], xs[1], alt, res.P, want, float64(twoU)/2)
		}
	}
	c01SignedZeros(c, r, u, twoU)
	c01AdjacentFloats(c, r, u, twoU)
	if n1+n2 <= 12 {
		c01Aliased(x1a, x2a, r)
	}
}

// c01SignedZeros re-materialises the class so that a tied rank class sits at
// zero, written with both signs (-0 == +0 is a tie like any other): U and P
// must be those of the class.
func c01SignedZeros(c *C01Case, r *core.Rec, u *ref.UNull, twoU int) {
	z := -1
	for k, t := range c.T { // prefer a tied class shared by both samples
		if t > 1 && c.R[k] > 0 && c.R[k] < t {
			z = k
			break
		}
	}
	for k, t := range c.T {
		if z < 0 && t > 1 {
			z = k
		}
	}
	if z < 0 {
		return
	}
	negz := math.Copysign(0, -1)
	for variant := 0; variant < 2; variant++ {
		var x1, x2 []float64
		for k, t := range c.T {
			for i := 0; i < t; i++ {
				v := float64(k - z)
				if k == z {
					// variant 0: sample 1 holds -0 and sample 2 +0 (alternating within a
					// sample when only one side has zeros); variant 1: the opposite.
					neg := (i < c.R[k]) == (variant == 0)
					if c.R[k] == 0 || c.R[k] == t {
						neg = (i+variant)%2 == 0
					}
					if neg {
						v = negz
					} else {
						v = 0
					}
				}
				if i < c.R[k] {
					x1 = append(x1, v)
				} else {
					x2 = append(x2, v)
				}
			}
		}
		x1, x2 = riffle(x1), riffle(x2)
		for _, alt := range c01Alts {
			res, err := stats.MannWhitneyUTest(x1, x2, alt)
			r.Trans(1)
			if err != nil || res == nil {
				r.Fail("signed-zero-error", "x1=%v x2=%v: unexpected error %v", x1, x2, err)
				continue
			}
			if res.U*2 != float64(twoU) {
				r.Fail("signed-zero-U", "x1=%v x2=%v (zeros of both signs are equal values): U=%v, pair count gives %v", x1, x2, res.U, float64(twoU)/2)
				continue
			}
			want := mwExactExpected(u, twoU, alt)
			if r.Err("P-"+alt.String(), math.Abs(res.P-want), 1e-9) {
				continue
			}
			if alt == stats.LocationDiffers && math.Abs(res.P-mwKnownTwoSided(u, twoU)) <= 1e-9 {
				r.KnownHit("mw-two-sided-asym", "x1=%v x2=%v two-sided: P=%v, exact %v", x1, x2, res.P, want)
				continue
			}
			r.Fail("signed-zero-P-"+alt.String(), "x1=%v x2=%v alt=%v (zeros of both signs): P=%v, exact %v", x1, x2, alt, res.P, want)
		}
	}
}

// c01AdjacentFloats materialises the class with values one ulp apart (rank k is
// the k-th float above 1, and again around 1e9): distinct values are distinct,
// however close.
func c01AdjacentFloats(c *C01Case, r *core.Rec, u *ref.UNull, twoU int) {
	if len(c.T) > 40 {
		return
	}
	for _, base := range []float64{1, 1e9, -3} {
		vals := make([]float64, len(c.T))
		v := base
		for k := range vals {
			vals[k] = v
			v = math.Nextafter(v, math.Inf(1))
		}
		var x1, x2 []float64
		for k, t := range c.T {
			for i := 0; i < t; i++ {
				if i < c.R[k] {
					x1 = append(x1, vals[k])
				} else {
					x2 = append(x2, vals[k])
				}
			}
		}
		x1, x2 = riffle(x1), riffle(x2)
		for _, alt := range c01Alts {
			res, err := stats.MannWhitneyUTest(x1, x2, alt)
			r.Trans(1)
			if err != nil || res == nil {
				r.Fail("adjacent-floats-error", "values one ulp apart from %v: unexpected error %v", base, err)
				continue
			}
			if res.U*2 != float64(twoU) {
				r.Fail("adjacent-floats-U", "tie vector %v allocation %v on values one ulp apart from %v: U=%v, pair count gives %v", c.T, c.R, base, res.U, float64(twoU)/2)
				break
			}
			want := mwExactExpected(u, twoU, alt)
			if r.Err("P-"+alt.String(), math.Abs(res.P-want), 1e-9) {
				continue
			}
			if alt == stats.LocationDiffers && math.Abs(res.P-mwKnownTwoSided(u, twoU)) <= 1e-9 {
				r.KnownHit("mw-two-sided-asym", "x1=%v x2=%v two-sided: P=%v, exact %v", x1, x2, res.P, want)
				continue
			}
			r.Fail("adjacent-floats-P-"+alt.String(), "tie vector %v allocation %v on values one ulp apart from %v, alt=%v: P=%v, exact %v", c.T, c.R, base, alt, res.P, want)
		}
	}
}

// c01Aliased passes overlapping windows of one series as the two samples: the
// result must be that of the data as passed (oracle on independent copies) and
// the series must be left alone.
func c01Aliased(x1a, x2a []float64, r *core.Rec) {
	series := append(riffle(x1a), riffle(x2a)...)
	N := len(series)
	if N < 3 {
		return
	}
	snap := snapFull(series)
	for _, w := range [][4]int{{0, N - 1, 1, N}, {0, (N + 2) / 2, (N - 1) / 2, N}, {1, N, 0, N - 1}, {0, N, 0, N}} {
		w1, w2 := series[w[0]:w[1]], series[w[2]:w[3]]
		c1, c2 := append([]float64{}, w1...), append([]float64{}, w2...)
		T, _ := tieVector(c1, c2)
		if len(T) < 2 {
			continue
		}
		u := c03Null(len(c1), len(c2), T)
		twoU := ref.PairU(c1, c2)
		for _, alt := range c01Alts {
			res, err := stats.MannWhitneyUTest(w1, w2, alt)
			r.Trans(1)
			if !snap.same(series) {
				r.Fail("aliased-modified", "series %v was modified by a call on its windows [%d:%d] and [%d:%d]", c01sn(snap), w[0], w[1], w[2], w[3])
				return
			}
			if err != nil || res == nil {
				r.Fail("aliased-error", "windows %v %v: unexpected error %v", c1, c2, err)
				continue
			}
			if res.U*2 != float64(twoU) {
				r.Fail("aliased-U", "overlapping windows x1=%v x2=%v of one series: U=%v, pair count gives %v", c1, c2, res.U, float64(twoU)/2)
				continue
			}
			want := mwExactExpected(u, twoU, alt)
			if r.Err("P-"+alt.String(), math.Abs(res.P-want), 1e-9) {
				continue
			}
			if alt == stats.LocationDiffers && math.Abs(res.P-mwKnownTwoSided(u, twoU)) <= 1e-9 {
				r.KnownHit("mw-two-sided-asym", "x1=%v x2=%v two-sided: P=%v, exact %v", c1, c2, res.P, want)
				continue
			}
			r.Fail("aliased-P-"+alt.String(), "overlapping windows x1=%v x2=%v alt=%v: P=%v, exact %v", c1, c2, alt, res.P, want)
		}
	}
}

func c01sn(s bitsnap) []float64 {
	out := make([]float64, len(s.bits))
	for i, b := range s.bits {
		out[i] = math.Float64frombits(b)
	}
	return out
}

func c01Run(c *core.Ctx) {
	r := c.R
	maxN := 10
	if c.Thorough() {
		maxN = 13
	}
	cs := &C01Case{}
	for N := 2; N <= maxN; N++ {
		enum.Compositions(N, 2, func(T []int) {
			for n1 := 1; n1 < N; n1++ {
				if !c.Mine() {
					continue
				}
				enum.Allocations(T, n1, func(R []int) {
					cs.T, cs.R = T, R
					r.Case("class", cs)
					r.Try(func() { c01Check(cs, r) })
				})
			}
		})
	}
	r.Bound("exhaustive", fmt.Sprintf("n1+n2<=%d: every tie vector, every allocation, 3 arrangements, 3 alternatives", maxN))

	// --- structured families up to the limits -------------------------------
	// Untied: T all ones; allocation patterns.
	var sizes []int
	if c.Thorough() {
		sizes = []int{1, 2, 7, 12, 24, 25, 26, 49, 50}
	} else {
		sizes = []int{1, 2, 11, 26, 38, 50}
	}
	for _, n1 := range sizes {
		for _, n2 := range sizes {
			N := n1 + n2
			if N <= maxN || !c.Mine() {
				continue
			}
			T := make([]int, N)
			for i := range T {
				T[i] = 1
			}
			for _, R := range c01UntiedPatterns(n1, n2) {
				cs.T, cs.R = T, R
				r.Case("class", cs)
				r.Try(func() { c01Check(cs, r) })
			}
		}
	}
	// Tied: all two-valued pools with every allocation.
	k2 := 12
	if c.Thorough() {
		k2 = 25
	}
	for n1 := 1; n1 <= k2; n1++ {
		for n2 := 1; n2 <= k2; n2++ {
			N := n1 + n2
			if N <= maxN {
				continue
			}
			for a := 1; a < N; a++ {
				if !c.Mine() {
					continue
				}
				T := []int{a, N - a}
				enum.Allocations(T, n1, func(R []int) {
					cs.T, cs.R = T, R
					r.Case("class", cs)
					r.Try(func() { c01Check(cs, r) })
				})
			}
		}
	}
	// The corner of the tied limit itself: two- and three-valued pools of sizes 24..25 each
	for _, n1 := range []int{24, 25} {
		for _, n2 := range []int{24, 25} {
			if n1 <= k2 && n2 <= k2 {
				continue // already covered exhaustively
			}
			N := n1 + n2
			for _, T := range [][]int{{1, N - 1}, {N / 2, N - N/2}, {N - 2, 2}, {10, 15, N - 25}, {1, 1, N - 2}} {
				if !c.Mine() {
					continue
				}
				cnt := 0
				enum.Allocations(T, n1, func(R []int) {
					if cnt%3 == 0 { // every third allocation of these pools, lowest first
						cs.T, cs.R = T, R
						r.Case("class", cs)
						r.Try(func() { c01Check(cs, r) })
					}
					cnt++
				})
			}
		}
	}
	// Three-valued pools with every allocation.
	k3 := 12
	if c.Thorough() {
		k3 = 18
	}
	for N := maxN + 1; N <= k3; N++ {
		for a := 1; a < N-1; a++ {
			for b := 1; a+b < N; b++ {
				T := []int{a, b, N - a - b}
				for n1 := 1; n1 < N; n1++ {
					if !c.Mine() {
						continue
					}
					enum.Allocations(T, n1, func(R []int) {
						cs.T, cs.R = T, R
						r.Case("class", cs)
						r.Try(func() { c01Check(cs, r) })
					})
				}
			}
		}
	}
	// Uniform tie vectors up to 25+25 with block allocations.
	mMax, side := 3, 12
	if c.Thorough() {
		mMax, side = 5, 25
	}
	for m := 2; m <= mMax; m++ {
		for K := 2; K*m <= 2*side; K++ {
			N := K * m
			if N <= maxN || !c.Mine() {
				continue
			}
			T := make([]int, K)
			for i := range T {
				T[i] = m
			}
			for _, R := range c01UniformPatterns(K, m, side) {
				cs.T, cs.R = T, R
				r.Case("class", cs)
				r.Try(func() { c01Check(cs, r) })
			}
		}
	}
	r.Bound("families", fmt.Sprintf("untied sizes %v x patterns; all K=2 pools sides<=%d; all K=3 pools N<=%d; uniform ties m<=%d sides<=%d", sizes, k2, k3, mMax, side))
}

// c01UntiedPatterns returns allocations (0/1 vectors with n1 ones) for the
// untied pool: perfect separation both ways, alternating, block-interleaved
// with block sizes 1..4, and one allocation per decile of U built by sliding
// sample 1 upward.
func c01UntiedPatterns(n1, n2 int) [][]int {
	N := n1 + n2
	var out [][]int
	add := func(R []int) {
		s := 0
		for _, v := range R {
			s += v
		}
		if s == n1 {
			out = append(out, R)
		}
	}
	// sample 1 lowest / highest
	lo, hi := make([]int, N), make([]int, N)
	for i := 0; i < n1; i++ {
		lo[i] = 1
		hi[N-1-i] = 1
	}
	add(lo)
	add(hi)
	// block interleavings
	for b := 1; b <= 4; b++ {
		for start := 0; start < 2; start++ {
			R := make([]int, N)
			left1, left2 := n1, n2
			turn := start
			for i := 0; i < N; {
				for k := 0; k < b && i < N; k++ {
					if (turn == 0 && left1 > 0) || left2 == 0 {
						R[i] = 1
						left1--
					} else {
						left2--
					}
					i++
				}
				turn ^= 1
			}
			add(R)
		}
	}
	// deciles of U: start from lo and move the top sample-1 value up step by step
	steps := n1 * n2
	for d := 1; d < 10; d++ {
		target := steps * d / 10
		// allocation with U = target: place sample 1 so that the sum of
		// "sample-2 values below" equals target, greedily from the top.
		R := make([]int, N)
		pos := make([]int, n1) // pos[i] = number of sample-2 values below the i-th smallest sample-1 value
		rem := target
		for i := n1 - 1; i >= 0; i-- {
			p := rem
			if p > n2 {
				p = n2
			}
			pos[i] = p
			rem -= p
		}
		// pos is non-decreasing; convert to positions in the pooled order
		for i, p := range pos {
			R[i+p] = 1
		}
		add(R)
	}
	return out
}

// c01UniformPatterns returns allocations for T = [m,m,...]: contiguous
// blocks, alternating whole ranks, and one split rank.
func c01UniformPatterns(K, m, side int) [][]int {
	var out [][]int
	ok := func(R []int) bool {
		n1 := 0
		for _, v := range R {
			n1 += v
		}
		n2 := K*m - n1
		return n1 >= 1 && n2 >= 1 && n1 <= side && n2 <= side
	}
	for cut := 1; cut < K; cut++ {
		R := make([]int, K)
		for k := 0; k < cut; k++ {
			R[k] = m
		}
		if ok(R) {
			out = append(out, R)
		}
		R2 := make([]int, K)
		for k := cut; k < K; k++ {
			R2[k] = m
		}
		if ok(R2) {
			out = append(out, R2)
		}
		// split rank at the cut
		for h := 1; h < m; h++ {
			R3 := append([]int{}, R...)
			R3[cut-1] = h
			if ok(R3) {
				out = append(out, R3)
			}
		}
	}
	alt := make([]int, K)
	half := make([]int, K)
	for k := range alt {
		if k%2 == 0 {
			alt[k] = m
		}
		half[k] = m / 2
	}
	if ok(alt) {
		out = append(out, alt)
	}
	if ok(half) {
		out = append(out, half)
	}
	return out
}
