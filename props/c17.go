package props

import (
	"fmt"
	"math"

	"github.com/aclements/go-moremath/scale"

	"verif/mc/core"
	"verif/mc/enum"
)

// C17 — Ticks are few enough, nice, ascending, inside the domain; Nice only expands.

// --- FindLevel (genuinely exhaustive) -------------------------------------------

type C17Find struct {
	Counts   []int `json:"counts"` // counts at levels -4..4 (non-increasing), constant outside
	Max      int   `json:"max"`
	MinLevel int   `json:"min_level"`
	MaxLevel int   `json:"max_level"`
	// Guess < -99 means "every guess in -7..7".
	Guess int `json:"guess"`
}

type stepTicker struct{ counts []int }

func (t stepTicker) CountTicks(level int) int {
	i := level + 4
	if i < 0 {
		i = 0
	}
	if i >= len(t.counts) {
		i = len(t.counts) - 1
	}
	return t.counts[i]
}

func (t stepTicker) TicksAtLevel(level int) interface{} { return make([]float64, t.CountTicks(level)) }

func c17FindOracle(t stepTicker, max, minL, maxL int) (int, bool) {
	if minL == 0 && maxL == 0 {
		minL, maxL = -1000, 1000
	} else if minL > maxL {
		return 0, false
	}
	if max < 1 {
		return 0, false
	}
	for l := minL; l <= maxL; l++ {
		if t.CountTicks(l) <= max {
			return l, true
		}
	}
	return 0, false
}

func c17FindCheck(c *C17Find, r *core.Rec) {
	t := stepTicker{c.Counts}
	wantL, wantOK := c17FindOracle(t, c.Max, c.MinLevel, c.MaxLevel)
	if wantOK {
		r.NT()
	}
	guesses := []int{c.Guess}
	if c.Guess < -99 {
		guesses = guesses[:0]
		for g := -7; g <= 7; g++ {
			guesses = append(guesses, g)
		}
		guesses = append(guesses, -2000, 2000)
	}
	for _, g := range guesses {
		o := scale.TickOptions{Max: c.Max, MinLevel: c.MinLevel, MaxLevel: c.MaxLevel}
		l, ok := o.FindLevel(t, g)
		r.Trans(1)
		r.Outcome(uint64(l+2000)<<1 | b2u(ok))
		if ok != wantOK || (ok && l != wantL) || (!ok && l != 0) {
			r.Fail("FindLevel", "counts(-4..4)=%v Max=%d levels=[%d,%d] guess=%d: FindLevel=(%d,%v), lowest admissible level is (%d,%v)", c.Counts, c.Max, c.MinLevel, c.MaxLevel, g, l, ok, wantL, wantOK)
			return
		}
	}
}

// --- Ticks and Nice ---------------------------------------------------------------

type C17Scale struct {
	Log      bool    `json:"log,omitempty"`
	Min      float64 `json:"min"`
	Max      float64 `json:"max"`
	Base     int     `json:"base"`
	TMax     int     `json:"tick_max"`
	MinLevel int     `json:"min_level"`
	MaxLevel int     `json:"max_level"`
}

// C17Seq is a history: several scales used one after the other in one process.
// Each must give the ticks of its own definition whatever was used before.
type C17Seq struct {
	Scales []C17Scale `json:"scales"`
}

func c17SeqCheck(c *C17Seq, r *core.Rec) {
	for i := range c.Scales {
		sc := c.Scales[i]
		c17TicksCheck(&sc, r)
	}
}

func init() {
	core.Register(&core.Prop{
		ID:    "C17",
		Title: "Ticks are few enough, nice, ascending, inside the domain; Nice only expands",
		Run:   c17Run,
		Kinds: []core.Kind{core.ReplayOf("findlevel", c17FindCheck), core.ReplayOf("ticks", c17TicksCheck), core.ReplayOf("tickseq", c17SeqCheck)},
		Rule: "FindLevel: every non-increasing step function levels -4..4 -> {0..4} (715 tickers) x Max 0..3 x every (MinLevel,MaxLevel) in [-5,5]^2 (including (0,0)=unlimited and Min>Max) x every guess in -7..7 and +-2000; " +
			"Ticks/Nice: Linear width in 12 values 1e-9..1e9 x centre/width in 9 values x Base in {0,2,3,5,10,16} x Max 1..20 x 4 level limits; Log min=+-10^e x 6 ratios x 5 bases x Max 1..20. " +
			"Histories: 4 domains x every ordered pair of bases (x Log in between) as single cases. Oracle: brute-force lowest admissible level; tick sets by definition (all multiples of the spacing inside the domain). Non-trivial: an admissible level exists.",
		Technique: "exhaustive enumeration of monotone tickers x options x guesses for FindLevel; bounded-exhaustive domain x option lattice for Ticks/Nice against definitional tick sets",
		Assumptions: []string{
			"ticks may lie up to 1e-9 domain widths outside the domain (the library's own slack is 1e-10) and a multiple of the spacing within 1e-9 widths of a domain end may be present or absent",
			"Log tick levels whose effective base overflows float64 are not levels of the scale; Log levels explored 0..7, Linear -12..12",
			"Nice: idempotence, <= one major spacing per end and ends = first/last major tick are asserted for Max>=3 (statement)",
		},
	})
}

func (c *C17Scale) opts() scale.TickOptions {
	return scale.TickOptions{Max: c.TMax, MinLevel: c.MinLevel, MaxLevel: c.MaxLevel}
}

type ticker interface {
	CountTicks(level int) int
	TicksAtLevel(level int) interface{}
}

// c17Lowest finds the finest admissible level of a scale ticker: starting
// from the coarsest level of the window (where the count is 0 or 1) it walks
// down while the count stays <= Max. Walking down (rather than scanning up
// from the bottom of the window) keeps the oracle away from the levels whose
// tick count overflows int, which are not levels of the scale.
func c17Lowest(t ticker, o scale.TickOptions, lo, hi int) (int, bool) {
	minL, maxL := o.MinLevel, o.MaxLevel
	if minL == 0 && maxL == 0 {
		minL, maxL = lo, hi
	} else if minL > maxL {
		return 0, false
	}
	if minL < lo {
		minL = lo
	}
	if maxL > hi {
		maxL = hi
	}
	if o.Max < 1 || maxL < minL {
		return 0, false
	}
	if n := t.CountTicks(maxL); n > o.Max || n < 0 {
		return 0, false
	}
	l := maxL
	for l-1 >= minL {
		if n := t.CountTicks(l - 1); n > o.Max || n < 0 {
			break
		}
		l--
	}
	return l, true
}

// roundOutFits reports whether some level within the limits covers [lo,hi]
// with at most max rounded-out ticks (the constraint Nice works under), and
// whether the answer is beyond doubt (no tick count within 1 of max came from
// a quotient within 1e-6 of an integer).
func linearRoundOutFits(lo, hi float64, base int, o scale.TickOptions) (fits, sure bool) {
	minL, maxL := o.MinLevel, o.MaxLevel
	if minL == 0 && maxL == 0 {
		return true, true
	}
	sure = true
	for l := minL; l <= maxL; l++ {
		sp := linearSpacing(base, l)
		a, b := lo/sp, hi/sp
		n := math.Ceil(b) - math.Floor(a) + 1
		if math.Abs(a-math.Round(a)) < 1e-6 || math.Abs(b-math.Round(b)) < 1e-6 {
			if n-2 <= float64(o.Max) && n+2 > float64(o.Max) {
				sure = false
			}
			// exact multiples do not need rounding out
			n = math.Round(b) - math.Round(a) + 1
			if math.Abs(a-math.Round(a)) >= 1e-6 {
				n = math.Round(b) - math.Floor(a) + 1
			} else if math.Abs(b-math.Round(b)) >= 1e-6 {
				n = math.Ceil(b) - math.Round(a) + 1
			}
		}
		if n <= float64(o.Max) {
			fits = true
		}
	}
	return
}

func linearSpacing(base, level int) float64 {
	eb := base
	if eb == 0 {
		eb = 10
	}
	exp := math.Floor(float64(level) / 2)
	sp := math.Pow(float64(eb), exp)
	if base == 0 && (level%2 == 1 || level%2 == -1) {
		sp *= 5
	}
	return sp
}

func ascending(x []float64) bool {
	for i := 1; i < len(x); i++ {
		if !(x[i] > x[i-1]) {
			return false
		}
	}
	return true
}

// contains reports whether v is in xs up to tol.
func containsF(xs []float64, v, tol float64) bool {
	for _, x := range xs {
		if math.Abs(x-v) <= tol {
			return true
		}
	}
	return false
}

func c17TicksCheck(c *C17Scale, r *core.Rec) {
	if c.Log {
		c17LogCheck(c, r)
		return
	}
	s := scale.Linear{Min: c.Min, Max: c.Max, Base: c.Base}
	o := c.opts()
	lo, hi := math.Min(c.Min, c.Max), math.Max(c.Min, c.Max)
	w := hi - lo
	// CountTicks = len(TicksAtLevel), non-increasing
	asc := scale.Linear{Min: lo, Max: hi, Base: c.Base}
	prev := math.MaxInt64
	for l := -12; l <= 12; l++ {
		n := asc.CountTicks(l)
		r.Trans(1)
		if n > prev {
			r.Fail("CountTicks-monotone", "Linear{%v,%v,base %d}: CountTicks(%d)=%d > CountTicks(%d)=%d", lo, hi, c.Base, l, n, l-1, prev)
		}
		prev = n
		if n > 4000 || n < 0 {
			continue // the tick list itself is only materialised where it is small
		}
		ts := asc.TicksAtLevel(l).([]float64)
		r.Trans(1)
		if n != len(ts) {
			r.Fail("CountTicks-len", "Linear{%v,%v,base %d}: CountTicks(%d)=%d, len(TicksAtLevel)=%d", lo, hi, c.Base, l, n, len(ts))
		}
		// definitional tick set: every multiple of the spacing inside the domain
		sp := linearSpacing(c.Base, l)
		if w/sp < 2000 {
			if !ascending(ts) {
				r.Fail("ticks-ascending", "TicksAtLevel(%d) not ascending: %v", l, trunc(ts))
			}
			for _, t := range ts {
				if t < lo-1e-9*w || t > hi+1e-9*w {
					r.Fail("ticks-inside", "Linear{%v,%v,base %d} level %d: tick %v outside the domain", lo, hi, c.Base, l, t)
				}
				if q := t / sp; math.Abs(q-math.Round(q)) > 1e-6*(1+math.Abs(q)*1e-3) {
					r.Fail("ticks-nice", "Linear{%v,%v,base %d} level %d: tick %v is not a multiple of %v", lo, hi, c.Base, l, t, sp)
				}
			}
			for n := math.Ceil((lo + 1e-9*w) / sp); n*sp <= hi-1e-9*w; n++ {
				if !containsF(ts, n*sp, 1e-9*sp+1e-9*w) {
					r.Fail("ticks-complete", "Linear{%v,%v,base %d} level %d: multiple %v of %v is inside the domain but missing from %v", lo, hi, c.Base, l, n*sp, sp, trunc(ts))
					break
				}
			}
		}
	}
	// Ticks(o)
	before := s
	major, minor := s.Ticks(o)
	if n := s.CountTicks(1); n >= 0 && n < 4000 { // never ask for an unbounded tick list
		s.TicksAtLevel(1)
	}
	if s != before {
		r.Fail("scale-modified", "Linear{%v,%v,base %d}: Ticks/CountTicks/TicksAtLevel changed the scale itself to %+v", c.Min, c.Max, c.Base, s)
	}
	keepMajor, keepMinor := append([]float64{}, major...), append([]float64{}, minor...)
	defer func() {
		// tick slices already returned keep their values while the scales are used further
		if !equalF(major, keepMajor) || !equalF(minor, keepMinor) {
			r.Fail("ticks-retained", "Linear{%v,%v,base %d}.Ticks(%+v): the returned slices changed during later calls: %v / %v, were %v / %v", c.Min, c.Max, c.Base, o, trunc(major), trunc(minor), trunc(keepMajor), trunc(keepMinor))
		}
	}()
	r.Trans(1)
	wantL, wantOK := c17Lowest(asc, o, -250, 80)
	if !wantOK {
		if major != nil || minor != nil {
			r.Fail("ticks-nolevel", "Linear{%v,%v,base %d}.Ticks(%+v) returned ticks although no level fits", c.Min, c.Max, c.Base, o)
		}
	} else {
		r.NT()
		wantMajor := asc.TicksAtLevel(wantL).([]float64)
		wantMinor := asc.TicksAtLevel(wantL - 1).([]float64)
		if !equalF(major, wantMajor) || !equalF(minor, wantMinor) {
			r.Fail("ticks-level", "Linear{%v,%v,base %d}.Ticks(%+v): major=%v minor=%v; the finest level that fits is %d with major=%v", c.Min, c.Max, c.Base, o, trunc(major), trunc(minor), wantL, trunc(wantMajor))
		}
		if len(major) > o.Max {
			r.Fail("ticks-max", "%d major ticks > Max=%d", len(major), o.Max)
		}
		sp := linearSpacing(c.Base, wantL)
		for _, t := range major {
			if !containsF(minor, t, 1e-9*sp) {
				r.Fail("major-in-minor", "Linear{%v,%v,base %d}.Ticks(%+v): major tick %v is not a minor tick (minor=%v)", c.Min, c.Max, c.Base, o, t, trunc(minor))
				break
			}
		}
		r.Outcome(uint64(wantL+100)<<8 | uint64(len(major)))
	}
	c17NiceLinear(c, r)
}

func c17NiceLinear(c *C17Scale, r *core.Rec) {
	o := c.opts()
	s := scale.Linear{Min: c.Min, Max: c.Max, Base: c.Base}
	lo, hi := math.Min(c.Min, c.Max), math.Max(c.Min, c.Max)
	s.Nice(o)
	r.Trans(1)
	tag := fmt.Sprintf("Linear{%v,%v,base %d}.Nice(%+v) -> [%v,%v]", c.Min, c.Max, c.Base, o, s.Min, s.Max)
	if math.IsNaN(s.Min) || math.IsNaN(s.Max) || math.IsInf(s.Min, 0) || math.IsInf(s.Max, 0) {
		r.Fail("nice-nonfinite", "%s: non-finite domain", tag)
		return
	}
	w := hi - lo
	if s.Min > lo+1e-9*w || s.Max < hi-1e-9*w {
		r.Fail("nice-shrinks", "%s: the domain shrank", tag)
		return
	}
	if o.Max < 3 {
		return
	}
	if fits, sure := linearRoundOutFits(lo, hi, c.Base, o); !fits || !sure {
		// No level inside the limits covers the domain with <= Max rounded-out
		// ticks: a nice domain does not exist and Nice has nothing to choose.
		r.Skip("Nice: level limits admit no covering tick set")
		return
	}
	t := s
	t.Nice(o)
	if t.Min != s.Min || t.Max != s.Max {
		r.Fail("nice-idempotent", "%s: a second Nice gives [%v,%v]", tag, t.Min, t.Max)
	}
	major, _ := s.Ticks(o)
	if len(major) == 0 {
		if _, ok := c17Lowest(s, o, -250, 80); ok {
			r.Fail("nice-ticks", "%s: no major ticks afterwards although a level fits", tag)
		}
		return
	}
	nw := s.Max - s.Min
	if math.Abs(major[0]-s.Min) > 1e-9*nw || math.Abs(major[len(major)-1]-s.Max) > 1e-9*nw {
		r.Fail("nice-ends", "%s: afterwards the major ticks are %v", tag, trunc(major))
	}
	if len(major) >= 2 {
		sp := major[1] - major[0]
		if lo-s.Min > sp*(1+1e-9) || s.Max-hi > sp*(1+1e-9) {
			r.Fail("nice-expands-too-much", "%s: grew by more than one major spacing %v", tag, sp)
		}
	}
}

func c17LogCheck(c *C17Scale, r *core.Rec) {
	s, err := scale.NewLog(c.Min, c.Max, c.Base)
	if err != nil {
		r.Skip("not a Log domain")
		return
	}
	o := c.opts()
	neg := c.Min < 0
	a, b := math.Abs(s.Min), math.Abs(s.Max)
	if a > b {
		a, b = b, a
	}
	lw := math.Log(b) - math.Log(a) // log width
	inside := func(t float64) bool {
		lt := math.Log(math.Abs(t))
		return lt >= math.Log(a)-1e-9*lw-1e-12 && lt <= math.Log(b)+1e-9*lw+1e-12 && (t < 0) == neg
	}
	maxLevel := 7
	for maxLevel > 0 && math.IsInf(math.Pow(float64(c.Base), math.Pow(2, float64(maxLevel))), 0) {
		maxLevel--
	}
	prev := math.MaxInt64
	for l := 0; l <= maxLevel; l++ {
		n := s.CountTicks(l)
		if n > 4000 || n < 0 {
			prev = n
			continue
		}
		ts := s.TicksAtLevel(l).([]float64)
		r.Trans(2)
		if n != len(ts) {
			r.Fail("log-CountTicks-len", "Log{%v,%v,base %d}: CountTicks(%d)=%d, len(TicksAtLevel)=%d", s.Min, s.Max, c.Base, l, n, len(ts))
		}
		if n > prev {
			r.Fail("log-CountTicks-monotone", "Log{%v,%v,base %d}: CountTicks(%d)=%d > CountTicks(%d)=%d", s.Min, s.Max, c.Base, l, n, l-1, prev)
		}
		prev = n
		if !ascending(ts) {
			r.Fail("log-ticks-ascending", "level %d ticks not ascending: %v", l, trunc(ts))
		}
		eb := math.Pow(float64(c.Base), math.Pow(2, float64(l)))
		for _, t := range ts {
			if !inside(t) {
				r.Fail("log-ticks-inside", "Log{%v,%v,base %d} level %d: tick %v outside the domain", s.Min, s.Max, c.Base, l, t)
			}
			k := math.Log(math.Abs(t)) / math.Log(eb)
			if math.Abs(k-math.Round(k)) > 1e-9*(1+math.Abs(k)) {
				r.Fail("log-ticks-nice", "Log{%v,%v,base %d} level %d: tick %v is not a power of %v", s.Min, s.Max, c.Base, l, t, eb)
			}
		}
		// completeness: every power of eb strictly inside is present
		k0 := math.Ceil((math.Log(a) + 1e-9*lw + 1e-12) / math.Log(eb))
		for k := k0; k*math.Log(eb) <= math.Log(b)-1e-9*lw-1e-12; k++ {
			v := math.Pow(eb, k)
			if neg {
				v = -v
			}
			if !containsF(ts, v, 1e-9*math.Abs(v)) {
				r.Fail("log-ticks-complete", "Log{%v,%v,base %d} level %d: power %v is inside the domain but missing from %v", s.Min, s.Max, c.Base, l, v, trunc(ts))
				break
			}
		}
	}
	major, minor := s.Ticks(o)
	r.Trans(1)
	wantL, wantOK := c17Lowest(&s, o, 0, maxLevel)
	if o.MinLevel == 0 && o.MaxLevel == 0 {
		// unlimited: levels below 0 are "infinitely many ticks" by convention, so the search is over l>=0
	}
	if !wantOK {
		if o.MinLevel == 0 && o.MaxLevel == 0 {
			// a level above the explored window may fit; not decided here
			r.Skip("log ticks: admissible level above the explored window")
		} else if (major != nil || minor != nil) && o.MaxLevel <= maxLevel {
			r.Fail("log-ticks-nolevel", "Log{%v,%v,base %d}.Ticks(%+v) returned ticks although no level in the limits fits", s.Min, s.Max, c.Base, o)
		}
	} else {
		r.NT()
		wantMajor := s.TicksAtLevel(wantL).([]float64)
		if !equalF(major, wantMajor) {
			r.Fail("log-ticks-level", "Log{%v,%v,base %d}.Ticks(%+v): major=%v; the finest level that fits is %d with %v", s.Min, s.Max, c.Base, o, trunc(major), wantL, trunc(wantMajor))
		}
		if len(major) > o.Max {
			r.Fail("log-ticks-max", "%d major ticks > Max=%d", len(major), o.Max)
		}
		if !ascending(minor) {
			r.Fail("log-minor-ascending", "minor ticks not ascending: %v", trunc(minor))
		}
		for _, t := range minor {
			if !inside(t) {
				r.Fail("log-minor-inside", "Log{%v,%v,base %d}: minor tick %v outside the domain", s.Min, s.Max, c.Base, t)
			}
		}
		for _, t := range major {
			if !containsF(minor, t, 1e-9*math.Abs(t)) {
				r.Fail("log-major-in-minor", "Log{%v,%v,base %d}.Ticks(%+v): major tick %v is not a minor tick; major=%v minor=%v", s.Min, s.Max, c.Base, o, t, trunc(major), trunc(minor))
				break
			}
		}
		r.Outcome(uint64(wantL+100)<<8 | uint64(len(major)))
	}
	// Nice
	n := s
	n.Nice(o)
	r.Trans(1)
	tag := fmt.Sprintf("Log{%v,%v,base %d}.Nice(%+v) -> [%v,%v]", s.Min, s.Max, c.Base, o, n.Min, n.Max)
	if math.IsNaN(n.Min) || math.IsNaN(n.Max) || math.IsInf(n.Min, 0) || math.IsInf(n.Max, 0) || n.Min == 0 || n.Max == 0 {
		r.Fail("log-nice-nonfinite", "%s: non-finite or zero bound", tag)
		return
	}
	lo, hi := math.Min(s.Min, s.Max), math.Max(s.Min, s.Max)
	if n.Min > lo*(1+sgn(lo)*1e-9) || n.Max < hi*(1-sgn(hi)*1e-9) {
		r.Fail("log-nice-shrinks", "%s: the domain shrank", tag)
		return
	}
	if o.Max < 3 {
		return
	}
	if o.MinLevel != 0 || o.MaxLevel != 0 {
		fits := false
		for l := o.MinLevel; l <= o.MaxLevel && l <= maxLevel; l++ {
			if l < 0 {
				continue
			}
			leb := math.Log(math.Pow(float64(c.Base), math.Pow(2, float64(l))))
			if math.Ceil(math.Log(b)/leb-1e-6)-math.Floor(math.Log(a)/leb+1e-6)+1 <= float64(o.Max)-1 {
				fits = true // fits with a margin of one tick: beyond doubt
			}
		}
		if !fits {
			r.Skip("Nice: level limits admit no covering tick set (or only marginally)")
			return
		}
	}
	t := n
	t.Nice(o)
	if t.Min != n.Min || t.Max != n.Max {
		r.Fail("log-nice-idempotent", "%s: a second Nice gives [%v,%v]", tag, t.Min, t.Max)
	}
	nm, _ := n.Ticks(o)
	if len(nm) == 0 {
		return
	}
	if math.Abs(nm[0]-n.Min) > 1e-9*math.Abs(n.Min) || math.Abs(nm[len(nm)-1]-n.Max) > 1e-9*math.Abs(n.Max) {
		r.Fail("log-nice-ends", "%s: afterwards the major ticks are %v", tag, trunc(nm))
	}
	if len(nm) >= 2 {
		ratio := math.Abs(math.Log(math.Abs(nm[1])) - math.Log(math.Abs(nm[0])))
		if math.Abs(math.Log(math.Abs(lo))-math.Log(math.Abs(n.Min))) > ratio*(1+1e-9) || math.Abs(math.Log(math.Abs(n.Max))-math.Log(math.Abs(hi))) > ratio*(1+1e-9) {
			r.Fail("log-nice-expands-too-much", "%s: grew by more than one major spacing (factor e^%v)", tag, ratio)
		}
	}
}

func sgn(x float64) float64 {
	if x < 0 {
		return -1
	}
	return 1
}

func c17Run(c *core.Ctx) {
	r := c.R
	// --- FindLevel -------------------------------------------------------------
	fc := &C17Find{Guess: -100}
	maxCount := 4
	enum.Multisets(9, maxCount+1, func(asc []int) {
		if !c.Mine() {
			return
		}
		counts := make([]int, 9)
		for i, v := range asc {
			counts[8-i] = v // non-increasing in level
		}
		for max := 0; max <= 3; max++ {
			for minL := -5; minL <= 5; minL++ {
				for maxL := -5; maxL <= 5; maxL++ {
					fc.Counts, fc.Max, fc.MinLevel, fc.MaxLevel = counts, max, minL, maxL
					r.Case("findlevel", fc)
					r.Try(func() { c17FindCheck(fc, r) })
				}
			}
		}
	})
	r.Bound("FindLevel", "715 monotone tickers x Max 0..3 x 121 level-limit pairs x 17 guesses")
	// --- Linear ticks ------------------------------------------------------------
	widths := []float64{1e-9, 3.7e-6, 1e-3, 0.25, 1, 2, 7.3, 10, 99.5, 1e3, 4.2e6, 1e9}
	centres := []float64{0, 0.5, -0.5, 1, -3, 10, 123.456, 1e3, -1e3}
	bases := []int{0, 2, 3, 5, 10, 16}
	limits := [][2]int{{0, 0}, {-2, 2}, {1, 1}, {-6, -3}}
	sc := &C17Scale{}
	// histories, each in a fresh process (the history starts from the initial package state): the same domain under every ordered pair of bases (and of a Linear and
	// a Log scale), as one self-contained case each
	seq := &C17Seq{}
	for _, d := range [][2]float64{{0, 1}, {2, 9}, {-30, 470}, {0.001, 0.0035}} {
		for _, b1 := range bases {
			for _, b2 := range bases {
				if b1 == b2 || !c.Mine() {
					continue
				}
				for _, tmax := range []int{3, 7} {
					seq.Scales = []C17Scale{
						{Min: d[0], Max: d[1], Base: b1, TMax: tmax},
						{Min: d[0], Max: d[1], Base: b2, TMax: tmax},
						{Min: d[0], Max: d[1], Base: b1, TMax: tmax},
					}
					if d[0] > 0 && b1 >= 2 {
						seq.Scales = append(seq.Scales, C17Scale{Log: true, Min: d[0], Max: d[1] * 1000, Base: b1, TMax: tmax},
							C17Scale{Min: d[0], Max: d[1], Base: b2, TMax: tmax})
					}
					r.Isolated("tickseq", seq)
				}
			}
		}
	}
	for _, w := range widths {
		for _, cw := range centres {
			for _, base := range bases {
				if !c.Mine() {
					continue
				}
				lo, hi := cw*w-w/2, cw*w+w/2
				for tmax := 1; tmax <= 20; tmax++ {
					for _, lim := range limits {
						*sc = C17Scale{Min: lo, Max: hi, Base: base, TMax: tmax, MinLevel: lim[0], MaxLevel: lim[1]}
						r.Case("ticks", sc)
						r.Try(func() { c17TicksCheck(sc, r) })
						if tmax%7 == 3 {
							// decreasing domain
							*sc = C17Scale{Min: hi, Max: lo, Base: base, TMax: tmax, MinLevel: lim[0], MaxLevel: lim[1]}
							r.Case("ticks", sc)
							r.Try(func() { c17TicksCheck(sc, r) })
						}
					}
				}
			}
		}
	}
	// exact-boundary domains (the slack exists for these)
	for _, d := range [][2]float64{{0.3, 7.2}, {0.1, 0.3}, {-0.3, 0.3}, {0, 1}, {1, 100}, {0.7, 0.9}, {1e-7, 9.999999999999999e-05}} {
		for _, base := range bases {
			if !c.Mine() {
				continue
			}
			for tmax := 1; tmax <= 20; tmax++ {
				*sc = C17Scale{Min: d[0], Max: d[1], Base: base, TMax: tmax}
				r.Case("ticks", sc)
				r.Try(func() { c17TicksCheck(sc, r) })
			}
		}
	}
	// domains whose ends lie a hair inside (or outside) a tick position: the rounding
	// slack must treat every level alike
	for _, k := range [][2]float64{{1, 5}, {1, 2}, {-3, 4}, {0, 1}} {
		for _, u := range []float64{1, 1e-3, 250} {
			for _, h := range []float64{0.8e-10, 0.3e-10, 1e-12, 3e-10, -0.8e-10, -1e-12} {
				for variant := 0; variant < 3; variant++ {
					for _, base := range bases {
						if !c.Mine() {
							continue
						}
						lo, hi := k[0]*u, k[1]*u
						if variant != 1 {
							lo = (k[0] + h) * u
						}
						if variant != 0 {
							hi = (k[1] - h) * u
						}
						for tmax := 1; tmax <= 20; tmax += 1 + tmax/8 {
							*sc = C17Scale{Min: lo, Max: hi, Base: base, TMax: tmax}
							r.Case("ticks", sc)
							r.Try(func() { c17TicksCheck(sc, r) })
						}
					}
				}
			}
		}
	}
	// --- Log ticks ----------------------------------------------------------------
	for _, e := range []float64{-100, -7, -1, 0, 2, 50} {
		for _, ratio := range []float64{1.5, 9, 10, 1e3, 1e9, 1e100, 0.9999999999999999e3} {
			for _, lbase := range []int{2, 3, 5, 10, 16} {
				for _, sign := range []float64{1, -1} {
					if !c.Mine() {
						continue
					}
					min := math.Pow(10, e)
					max := min * ratio
					if math.IsInf(max, 0) {
						continue
					}
					for tmax := 1; tmax <= 20; tmax++ {
						for _, lim := range [][2]int{{0, 0}, {0, 1}, {2, 3}} {
							*sc = C17Scale{Log: true, Min: sign * min, Max: sign * max, Base: lbase, TMax: tmax, MinLevel: lim[0], MaxLevel: lim[1]}
							r.Case("ticks", sc)
							r.Try(func() { c17TicksCheck(sc, r) })
						}
					}
				}
			}
		}
	}
	r.Bound("ticks", "Linear 12 widths x 9 centres x 6 bases x Max 1..20 x 4 level limits (+ decreasing domains, exact-boundary domains, 4 x 3 x 6 x 3 domains with ends a hair inside/outside a tick); Log 6 x 7 x 5 bases x 2 signs x Max 1..20 x 3 limits")
}
