package props

import (
	"fmt"
	"math"
	"reflect"

	"github.com/aclements/go-moremath/stats"

	"verif/mc/core"
	"verif/mc/ref"
)

// C13 — StreamStats equals batch statistics for every stream and every split.
//
// E-hist: breadth-first search over histories of Add(i, v) and Combine(i, j)
// on A real accumulators; a state is (implementation bits of every
// accumulator read by reflection, model multiset of every accumulator); the
// invariant "every observer agrees with the exact batch statistic of the model
// multiset" is evaluated in every state.

var c13Alphabet = []float64{-2, 0, 3, 1e9 + 1}

// C13Op is one operation of a history. V indexes nothing: it is the value.
type C13Op struct {
	Op string  `json:"op"` // "add" or "combine"
	I  int     `json:"i"`
	J  int     `json:"j,omitempty"`
	V  float64 `json:"v,omitempty"`
}

// C13Hist is a history on A accumulators starting from zero values.
type C13Hist struct {
	A   int     `json:"accumulators"`
	Ops []C13Op `json:"ops"`
}

func init() {
	core.Register(&core.Prop{
		ID:    "C13",
		Title: "StreamStats equals batch statistics for every stream and every split",
		Run:   c13Run,
		Kinds: []core.Kind{
			core.ReplayOf("hist", c13CheckHist),
		},
		Rule: "explicit-state BFS over histories of Add(i,v), v in {-2,0,3,1e9+1}, and Combine(i,j) (i==j included: an accumulator combined with itself), on A zero-valued accumulators; " +
			"a state is (bit pattern of every StreamStats field read by reflection, model multiset per accumulator), de-duplicated on that pair; " +
			"plus every stream of length L, every split into k parts (empty parts included) and every merge order (all k!(k-1)! sequences of pairwise Combine). " +
			"A state/case is non-trivial when some accumulator holds >=2 values after at least one Combine, or a Combine had an empty side.",
		Technique: "explicit-state BFS over real method calls with reflection-read state keys, exact big.Rat batch-statistics oracle in every state",
		Assumptions: []string{
			"value alphabet {-2,0,3,1e9+1} and the structured long streams stand for 'all values'",
			"tolerances: Total 2n*eps*sum|x|, Mean 8n*eps*max|x|, RMS from 8n*eps*max x^2, Variance 8n*eps*var*sqrt(1+mean^2/varpop); exact 0 where the exact value is 0",
		},
	})
}

// ssBits appends the bit pattern of every field of s (exported or not).
func ssBits(buf []byte, s *stats.StreamStats) []byte {
	v := reflect.ValueOf(s).Elem()
	for i := 0; i < v.NumField(); i++ {
		f := v.Field(i)
		var u uint64
		switch f.Kind() {
		case reflect.Uint, reflect.Uint64, reflect.Uint32:
			u = f.Uint()
		case reflect.Int, reflect.Int64, reflect.Int32:
			u = uint64(f.Int())
		case reflect.Float64:
			u = math.Float64bits(f.Float())
		case reflect.Bool:
			if f.Bool() {
				u = 1
			}
		default:
			// A field of a kind we cannot key on: fold its printed form in.
			for _, c := range []byte(fmt.Sprintf("%v", f)) {
				buf = append(buf, c)
			}
			continue
		}
		for k := 0; k < 8; k++ {
			buf = append(buf, byte(u>>(8*k)))
		}
	}
	return buf
}

type c13Model [4]uint8 // count of each alphabet value

func (m c13Model) values() []float64 {
	var xs []float64
	for k, c := range m {
		for i := 0; i < int(c); i++ {
			xs = append(xs, c13Alphabet[k])
		}
	}
	return xs
}

var c13Memo = map[c13Model]*ref.Moments{}

func c13Moments(m c13Model) *ref.Moments {
	if mo := c13Memo[m]; mo != nil {
		return mo
	}
	mo := ref.ExactMoments(m.values())
	c13Memo[m] = mo
	return mo
}

// c13CheckAcc evaluates the invariant for one accumulator against the exact
// moments of the values it should hold.
func c13CheckAcc(r *core.Rec, s *stats.StreamStats, mo *ref.Moments, where string) {
	n := float64(mo.N)
	if s.Count != uint(mo.N) {
		r.Fail("Count", "%s: Count=%d, model has %d values", where, s.Count, mo.N)
	}
	if s.Weight() != n {
		r.Fail("Weight", "%s: Weight=%v, want %v", where, s.Weight(), n)
	}
	if !r.Err("Total", ref.AbsDiff(s.Total, mo.Total), 2*n*ref.Eps*mo.SumAbs) {
		r.Fail("Total", "%s: Total=%v, exact %v", where, s.Total, mo.TotalF)
	}
	if mo.N == 0 {
		return
	}
	if s.Min != mo.Min {
		r.Fail("Min", "%s: Min=%v, exact %v", where, s.Min, mo.Min)
	}
	if s.Max != mo.Max {
		r.Fail("Max", "%s: Max=%v, exact %v", where, s.Max, mo.Max)
	}
	if !r.Err("Mean", ref.AbsDiff(s.Mean(), mo.Mean), 8*n*ref.Eps*mo.MaxAbs) {
		r.Fail("Mean", "%s: Mean=%v, exact %v", where, s.Mean(), mo.MeanF)
	}
	// RMS
	rms := s.RMS()
	if mo.RMSF == 0 {
		if rms != 0 {
			r.Fail("RMS", "%s: RMS=%v, exact 0", where, rms)
		}
	} else {
		tol := 8*n*ref.Eps*mo.MaxAbs*mo.MaxAbs/(2*mo.RMSF) + 4*ref.Eps*mo.RMSF
		if !r.Err("RMS", math.Abs(rms-mo.RMSF), tol) {
			r.Fail("RMS", "%s: RMS=%v, exact %v", where, rms, mo.RMSF)
		}
	}
	if mo.N < 2 {
		return
	}
	v := s.Variance()
	if mo.Var.Sign() == 0 {
		if v != 0 {
			r.Fail("Variance", "%s: Variance=%v, exact 0", where, v)
		}
		if sd := s.StdDev(); sd != 0 {
			r.Fail("StdDev", "%s: StdDev=%v, exact 0", where, sd)
		}
		return
	}
	tol := 8 * n * ref.Eps * mo.VarF * mo.CondVar
	if !r.Err("Variance", ref.AbsDiff(v, mo.Var), tol) {
		r.Fail("Variance", "%s: Variance=%v, exact %v", where, v, mo.VarF)
	}
	sdWant := ref.SqrtRat(mo.Var)
	if !r.Err("StdDev", math.Abs(s.StdDev()-sdWant), tol/(2*sdWant)+4*ref.Eps*sdWant) {
		r.Fail("StdDev", "%s: StdDev=%v, exact %v", where, s.StdDev(), sdWant)
	}
}

// c13CheckHist replays a history from zero values, checking the invariant
// after every operation. Values outside the BFS alphabet are allowed.
func c13CheckHist(c *C13Hist, r *core.Rec) {
	acc := make([]stats.StreamStats, c.A)
	model := make([][]float64, c.A)
	for k, op := range c.Ops {
		switch op.Op {
		case "add":
			acc[op.I].Add(op.V)
			model[op.I] = append(model[op.I], op.V)
		case "combine":
			// op.I == op.J is s.Combine(&s): both operands hold the same sequence
			acc[op.I].Combine(&acc[op.J])
			model[op.I] = append(model[op.I], append([]float64(nil), model[op.J]...)...)
		}
		for i := range acc {
			c13CheckAcc(r, &acc[i], ref.ExactMoments(model[i]), fmt.Sprintf("after op %d acc %d", k, i))
		}
	}
}

type c13State struct {
	acc   []stats.StreamStats
	model []c13Model
	path  []uint8 // op indices from the root
	flags uint8   // 1: a combine happened; 2: a combine had an empty side
}

type c13OpDef struct {
	op C13Op
	vi int
}

// c13Self: whether the current BFS job has Combine(i,i) in its alphabet (jobs run one at a time).
var c13Self bool

func c13Ops(A int) []c13OpDef {
	var ops []c13OpDef
	for i := 0; i < A; i++ {
		for vi, v := range c13Alphabet {
			ops = append(ops, c13OpDef{C13Op{Op: "add", I: i, V: v}, vi})
		}
	}
	for i := 0; i < A; i++ {
		for j := 0; j < A; j++ {
			// i == j (an accumulator combined with itself, round 10) only in jobs that ask for
			// it: doubling defeats state merging, so the deep thorough jobs keep i != j
			if i != j || c13Self {
				ops = append(ops, c13OpDef{C13Op{Op: "combine", I: i, J: j}, -1})
			}
		}
	}
	return ops
}

func c13Key(buf []byte, st *c13State) []byte {
	buf = buf[:0]
	for i := range st.acc {
		buf = ssBits(buf, &st.acc[i])
		buf = append(buf, st.model[i][:]...)
	}
	return buf
}

func (st *c13State) apply(od c13OpDef) *c13State {
	A := len(st.acc)
	n := &c13State{acc: make([]stats.StreamStats, A), model: make([]c13Model, A), flags: st.flags}
	copy(n.acc, st.acc) // StreamStats is a plain value type: no shared storage
	copy(n.model, st.model)
	if od.vi >= 0 {
		n.acc[od.op.I].Add(od.op.V)
		n.model[od.op.I][od.vi]++
	} else {
		if st.acc[od.op.I].Count == 0 || st.acc[od.op.J].Count == 0 {
			n.flags |= 2
		}
		n.flags |= 1
		n.acc[od.op.I].Combine(&n.acc[od.op.J])
		for k := range n.model[od.op.I] {
			n.model[od.op.I][k] += n.model[od.op.J][k]
		}
	}
	return n
}

func c13HistOf(A int, ops []c13OpDef, path []uint8) *C13Hist {
	h := &C13Hist{A: A}
	for _, p := range path {
		h.Ops = append(h.Ops, ops[p].op)
	}
	return h
}

// c13BFS explores from the given root paths to the given total depth.
func c13BFS(r *core.Rec, A, depth int, roots [][]uint8) (states int64) {
	ops := c13Ops(A)
	seen := map[string]struct{}{}
	var buf []byte
	mk := func(path []uint8) *c13State {
		st := &c13State{acc: make([]stats.StreamStats, A), model: make([]c13Model, A)}
		for _, p := range path {
			st = st.apply(ops[p])
		}
		st.path = append([]uint8{}, path...)
		return st
	}
	check := func(st *c13State) {
		h := c13HistOf(A, ops, st.path)
		r.Case("hist", h)
		nt := false
		r.Try(func() {
			for i := range st.acc {
				mo := c13Moments(st.model[i])
				c13CheckAcc(r, &st.acc[i], mo, fmt.Sprintf("acc %d", i))
				if st.flags&1 != 0 && mo.N >= 2 {
					nt = true
				}
				r.OutcomeF(st.acc[i].Mean(), st.acc[i].Variance(), st.acc[i].Min, st.acc[i].Max)
			}
		})
		if nt || st.flags&2 != 0 {
			r.NT()
		}
	}
	var frontier []*c13State
	for _, rp := range roots {
		st := mk(rp)
		buf = c13Key(buf, st)
		if _, ok := seen[string(buf)]; ok {
			continue
		}
		seen[string(buf)] = struct{}{}
		check(st)
		frontier = append(frontier, st)
	}
	for len(frontier) > 0 {
		var next []*c13State
		for _, st := range frontier {
			if len(st.path) >= depth {
				continue
			}
			for oi, od := range ops {
				var n *c13State
				if p := core.Catch(func() { n = st.apply(od) }); p != nil {
					h := c13HistOf(A, ops, append(append([]uint8{}, st.path...), uint8(oi)))
					r.Case("hist", h)
					// re-execute through the replayable check so the signature is the canonical one
					r.Try(func() { c13CheckHist(h, r) })
					continue
				}
				r.Trans(1)
				buf = c13Key(buf, n)
				if _, ok := seen[string(buf)]; ok {
					continue
				}
				seen[string(buf)] = struct{}{}
				n.path = append(append(make([]uint8, 0, len(st.path)+1), st.path...), uint8(oi))
				check(n)
				next = append(next, n)
			}
		}
		frontier = next
	}
	return int64(len(seen))
}

// C13Split: a stream, cut points, and a merge order.
type C13Split struct {
	Xs     []float64 `json:"xs"`
	Cuts   []int     `json:"cuts"`   // non-decreasing cut positions; part p = xs[cuts[p-1]:cuts[p]]
	Merges [][2]int  `json:"merges"` // sequence of Combine(i<-j) over part indices
}

func c13CheckSplit(c *C13Split, r *core.Rec) {
	k := len(c.Cuts) + 1
	acc := make([]stats.StreamStats, k)
	lo := 0
	emptySide := false
	for p := 0; p < k; p++ {
		hi := len(c.Xs)
		if p < len(c.Cuts) {
			hi = c.Cuts[p]
		}
		for _, x := range c.Xs[lo:hi] {
			acc[p].Add(x)
		}
		lo = hi
	}
	last := 0
	for _, m := range c.Merges {
		if acc[m[0]].Count == 0 || acc[m[1]].Count == 0 {
			emptySide = true
		}
		acc[m[0]].Combine(&acc[m[1]])
		last = m[0]
	}
	mo := ref.ExactMoments(c.Xs)
	c13CheckAcc(r, &acc[last], mo, "merged")
	var single stats.StreamStats
	for _, x := range c.Xs {
		single.Add(x)
	}
	c13CheckAcc(r, &single, mo, "single")
	if single.Count != acc[last].Count || single.Min != acc[last].Min || single.Max != acc[last].Max {
		r.Fail("split-vs-single", "merged Count/Min/Max = %d/%v/%v, single accumulator %d/%v/%v",
			acc[last].Count, acc[last].Min, acc[last].Max, single.Count, single.Min, single.Max)
	}
	r.OutcomeF(acc[last].Mean(), acc[last].Variance(), acc[last].Min, acc[last].Max)
	if emptySide || len(c.Xs) >= 2 {
		r.NT()
	}
}

// mergeOrders enumerates every sequence of pairwise Combine(i<-j) that merges
// k live parts into one.
func mergeOrders(k int, f func(m [][2]int)) {
	live := make([]int, k)
	for i := range live {
		live[i] = i
	}
	var seq [][2]int
	var rec func(live []int)
	rec = func(live []int) {
		if len(live) == 1 {
			f(seq)
			return
		}
		for a := 0; a < len(live); a++ {
			for b := 0; b < len(live); b++ {
				if a == b {
					continue
				}
				seq = append(seq, [2]int{live[a], live[b]})
				var nl []int
				for c, v := range live {
					if c != b {
						nl = append(nl, v)
					}
				}
				rec(nl)
				seq = seq[:len(seq)-1]
			}
		}
	}
	rec(live)
}

// cuts enumerates all non-decreasing (k-1)-tuples in 0..L.
func cutsEnum(L, k int, f func(c []int)) {
	c := make([]int, k-1)
	var rec func(i, lo int)
	rec = func(i, lo int) {
		if i == k-1 {
			f(c)
			return
		}
		for v := lo; v <= L; v++ {
			c[i] = v
			rec(i+1, v)
		}
	}
	rec(0, 0)
}

func c13Run(c *core.Ctx) {
	r := c.R
	// --- BFS jobs -----------------------------------------------------------
	type job struct {
		A, depth int
		self     bool // Combine(i,i) in the alphabet
	}
	var jobs []job
	if c.Thorough() {
		jobs = []job{{4, 7, false}, {3, 7, false}, {2, 9, false}, {5, 5, false}, {6, 4, false}, {3, 6, true}, {4, 5, true}, {2, 7, true}}
	} else {
		jobs = []job{{3, 6, true}, {4, 5, true}, {2, 7, true}}
	}
	for _, j := range jobs {
		// Each BFS job runs whole in the one shard that owns it, so its state
		// count is the exact number of distinct reachable states.
		if !c.Mine() {
			continue
		}
		c13Self = j.self
		r.State(c13BFS(r, j.A, j.depth, [][]uint8{{}}))
		r.Bound(fmt.Sprintf("bfs_A%d_self%v", j.A, j.self), fmt.Sprintf("depth<=%d", j.depth))
	}
	// --- every split of every stream, every merge order ---------------------
	maxL, maxK := 4, 3
	if c.Thorough() {
		maxL, maxK = 5, 4
	}
	cs := &C13Split{}
	for L := 0; L <= maxL; L++ {
		idx := make([]int, L)
		for {
			if c.Mine() {
				xs := make([]float64, L)
				for i, k := range idx {
					xs[i] = c13Alphabet[k]
				}
				for k := 2; k <= maxK; k++ {
					cutsEnum(L, k, func(cu []int) {
						mergeOrders(k, func(m [][2]int) {
							cs.Xs, cs.Cuts, cs.Merges = xs, cu, m
							r.Case("split", cs)
							r.Try(func() { c13CheckSplit(cs, r) })
							r.Trans(int64(L + len(m)))
						})
					})
				}
			}
			// next sequence
			i := L - 1
			for ; i >= 0; i-- {
				idx[i]++
				if idx[i] < len(c13Alphabet) {
					break
				}
				idx[i] = 0
			}
			if i < 0 {
				break
			}
		}
	}
	r.Bound("split", fmt.Sprintf("L<=%d parts<=%d all merge orders", maxL, maxK))
	// --- long structured streams with large offsets --------------------------
	for _, L := range []int{6, 7, 8, 50, 200} {
		for pi, pat := range c13Patterns(L) {
			_ = pi
			// two parts: every split point; three parts: every pair of split points (L <= 50)
			for s := 0; s <= L; s++ {
				if !c.Mine() {
					continue
				}
				for _, m := range [][][2]int{{{0, 1}}, {{1, 0}}} {
					cs.Xs, cs.Cuts, cs.Merges = pat, []int{s}, m
					r.Case("split", cs)
					r.Try(func() { c13CheckSplit(cs, r) })
					r.Trans(int64(L + 1))
				}
				if L <= 50 || c.Thorough() {
					for s2 := s; s2 <= L; s2++ {
						if L > 50 && (s2-s)%7 != 0 {
							continue
						}
						for _, m := range [][][2]int{{{0, 1}, {0, 2}}, {{1, 2}, {0, 1}}, {{2, 1}, {2, 0}}, {{0, 2}, {1, 0}}} {
							cs.Xs, cs.Cuts, cs.Merges = pat, []int{s, s2}, m
							r.Case("split", cs)
							r.Try(func() { c13CheckSplit(cs, r) })
							r.Trans(int64(L + 2))
						}
					}
				}
			}
		}
	}
	r.Bound("long_streams", "L in {6,7,8,50,200} x 6 patterns x every split point (x every second split point for L<=50)")
}

func c13Patterns(L int) [][]float64 {
	var ps [][]float64
	for _, off := range []float64{0, 1e9} {
		a := make([]float64, L) // small spread around the offset
		b := make([]float64, L) // alternating
		g := make([]float64, L) // growing
		for i := 0; i < L; i++ {
			a[i] = off + float64(i%7)
			if i%2 == 0 {
				b[i] = off + 1
			} else {
				b[i] = -off - 2.5
			}
			g[i] = off + float64(i*i)/4
		}
		ps = append(ps, a, b, g)
	}
	return ps
}

func init() {
	p := core.Lookup("C13")
	p.Kinds = append(p.Kinds, core.ReplayOf("split", c13CheckSplit))
}
