package props

import (
	"fmt"
	"math"
	"math/big"
	"sort"

	"github.com/aclements/go-moremath/stats"

	"verif/mc/core"
	"verif/mc/enum"
	"verif/mc/ref"
)

// C11 — QuantileCI bounds are valid order statistics with at least the stated confidence.

type C11Case struct {
	N int     `json:"n"`
	Q float64 `json:"q"`
	// Cs: explicit confidence levels; nil = the standard lattice for (N, Q).
	Cs []float64 `json:"cs,omitempty"`
}

type C11Sample struct {
	Xs []float64 `json:"xs"`
	Q  float64   `json:"q"`
	C  float64   `json:"c"`
}

func init() {
	core.Register(&core.Prop{
		ID:    "C11",
		Title: "QuantileCI bounds are valid order statistics with at least the stated confidence",
		Run:   c11Run,
		Kinds: []core.Kind{core.ReplayOf("ci", c11Check), core.ReplayOf("sampleci", c11SampleCI)},
		Rule: "every n in 1..30 and n in {31,32,50,100,101,500,2000}; q in {k/40} u {1e-9,1-1e-9}; c in {1e-12} u {k/200} u {1,1.5} u every cumulative mass of the reference greedy accumulation +-0,1 ulp; " +
			"SampleCI on every permutation of samples of size<=5 and one of size 31. Oracle: Binomial(n,q) masses in big.Rat on the exact value of the float q (n<=30); the statement's normal construction in 160-bit arithmetic with an independent normal quantile (n>30). " +
			"Non-trivial: 0<q<1 and 0<c<1.",
		Technique: "bounded-exhaustive (n,q,c) enumeration of the real QuantileCI against exact binomial masses / a high-precision normal construction",
		Assumptions: []string{
			"c<=0 is outside the domain (the statement is self-inconsistent there); smallest level 1e-12",
			"n>30: when the exact band end is within 1e-7 of a half-integer either rounding is accepted",
			"'at least c' and 'end bucket necessary' carry 1e-12 slack for the library's float accumulation; Confidence accuracy 1e-9",
		},
	})
}

// c11Masses returns the exact Binomial(n, q) pmf.
func c11Masses(n int, q float64) []*big.Rat {
	p := ref.R(q)
	om := ref.Sub(ref.RI(1), p)
	pp := make([]*big.Rat, n+1)
	qq := make([]*big.Rat, n+1)
	pp[0], qq[0] = ref.RI(1), ref.RI(1)
	for i := 1; i <= n; i++ {
		pp[i] = ref.Mul(pp[i-1], p)
		qq[i] = ref.Mul(qq[i-1], om)
	}
	out := make([]*big.Rat, n+1)
	for k := 0; k <= n; k++ {
		b := new(big.Rat).SetInt(new(big.Int).Binomial(int64(n), int64(k)))
		out[k] = ref.Mul(ref.Mul(b, pp[k]), qq[n-k])
	}
	return out
}

// c11GreedyCums simulates the statement's greedy accumulation on exact masses
// and returns the cumulative masses as floats.
func c11GreedyCums(m []*big.Rat, n int, q float64) []float64 {
	// lower mode
	t := ref.Mul(ref.RI(int64(n+1)), ref.R(q))
	fl := new(big.Int).Div(t.Num(), t.Denom())
	x := int(fl.Int64())
	if new(big.Rat).SetInt(fl).Cmp(t) == 0 && x > 0 {
		x-- // (n+1)q integral: two modes, take the lower
	}
	if x > n {
		x = n
	}
	l, rr := x, x+1
	acc := new(big.Rat).Set(m[x])
	cums := []float64{ref.F(acc)}
	get := func(k int) *big.Rat {
		if k < 0 || k > n {
			return new(big.Rat)
		}
		return m[k]
	}
	for l > 0 || rr <= n {
		lp, rp := get(l-1), get(rr)
		if lp.Sign() == 0 && rp.Sign() == 0 {
			break
		}
		if lp.Cmp(rp) >= 0 {
			acc.Add(acc, lp)
			l--
		} else {
			acc.Add(acc, rp)
			rr++
		}
		cums = append(cums, ref.F(acc))
	}
	return cums
}

func c11CLattice(n int, q float64, masses []*big.Rat) []float64 {
	cs := []float64{1e-12, 1, 1.5}
	// levels crowding 1 from below, down to the last float before 1
	for _, d := range []float64{1e-3, 1e-6, 1e-9, 1e-12, 1e-14, 5 * 0x1p-53, 3 * 0x1p-53, 2 * 0x1p-53, 0x1p-53} {
		cs = append(cs, 1-d)
	}
	for k := 1; k < 200; k++ {
		cs = append(cs, float64(k)/200)
	}
	if masses != nil {
		for _, c := range c11GreedyCums(masses, n, q) {
			// exactly, one ulp either side, and clearly above/below it (beyond the 1e-12 slack
			// granted to "Confidence >= c", within the 1e-9 of a would-be tolerance)
			for _, v := range []float64{c, math.Nextafter(c, 0), math.Nextafter(c, 2), c + 3e-12, c + 1e-10, c + 5e-10, c - 3e-12, c - 5e-10} {
				if v > 0 && v < 1 {
					cs = append(cs, v)
				}
			}
		}
	}
	sort.Float64s(cs)
	out := cs[:0]
	for i, c := range cs {
		if i == 0 || c != cs[i-1] {
			out = append(out, c)
		}
	}
	return out
}

var c11ZMemo = map[float64]*big.Float{}

// c11Z returns the normal quantile z with Phi(z) = (1+c)/2 at ~150 bits.
func c11Z(c float64) *big.Float {
	if z := c11ZMemo[c]; z != nil {
		return z
	}
	const prec = 200
	target := new(big.Float).SetPrec(prec).SetFloat64(c)
	target.Add(target, new(big.Float).SetPrec(prec).SetInt64(1))
	target.Quo(target, new(big.Float).SetPrec(prec).SetInt64(2))
	// start from the library-independent float estimate via bisection on math.Erfc
	lo, hi := 0.0, 40.0
	for i := 0; i < 200; i++ {
		mid := (lo + hi) / 2
		if 0.5*math.Erfc(-mid/math.Sqrt2) < (1+c)/2 {
			lo = mid
		} else {
			hi = mid
		}
	}
	z := new(big.Float).SetPrec(prec).SetFloat64((lo + hi) / 2)
	// Newton in high precision: z -= (Phi(z) - target)/phi(z)
	for it := 0; it < 6; it++ {
		F := ref.NormCDFBig(z)
		d := new(big.Float).SetPrec(prec).Sub(F, target)
		z2 := new(big.Float).SetPrec(prec).Mul(z, z)
		z2.Quo(z2, new(big.Float).SetPrec(prec).SetInt64(-2))
		pdf := ref.Exp(z2)
		pdf.Quo(pdf, ref.Sqrt(new(big.Float).SetPrec(prec).Mul(ref.Pi(prec), new(big.Float).SetPrec(prec).SetInt64(2))))
		d.Quo(d, pdf)
		z.Sub(z, d)
		if d.Sign() == 0 || d.MantExp(nil) < -150 {
			break
		}
	}
	c11ZMemo[c] = z
	return z
}

func c11Check(c *C11Case, r *core.Rec) {
	n, q := c.N, c.Q
	var masses []*big.Rat
	if n <= 30 {
		masses = c11Masses(n, q)
	}
	cs := c.Cs
	if cs == nil {
		cs = c11CLattice(n, q, masses)
	}
	mass := func(lo, hi int) *big.Rat { // buckets lo..hi-1
		s := new(big.Rat)
		for k := lo; k < hi; k++ {
			if k >= 0 && k <= n {
				s.Add(s, masses[k])
			}
		}
		return s
	}
	prevLo, prevHi := -1, -1
	if q > 0 && q < 1 {
		r.NT()
	}
	for ci, conf := range cs {
		// history: calls for other sizes in between (a larger n on the exact path, then one
		// on the normal path) must leave no trace
		if ci%4 == 0 {
			stats.QuantileCI(30, 0.5, 0.9)
			if ci%8 == 0 {
				stats.QuantileCI(64, 0.25, 0.99)
			}
			r.Trans(1)
		}
		res := stats.QuantileCI(n, q, conf)
		r.Trans(1)
		r.Outcome(uint64(res.LoOrder)<<32 | uint64(res.HiOrder)<<1 | b2u(res.Ambiguous))
		tag := fmt.Sprintf("QuantileCI(%d,%v,%v)=%+v", n, q, conf, res)
		if res.N != n || !sameF(res.Quantile, q) {
			r.Fail("fields", "%s: N/Quantile not copied", tag)
		}
		if !(0 <= res.LoOrder && res.LoOrder < res.HiOrder && res.HiOrder <= n+1) {
			r.Fail("structure", "%s: need 0<=LoOrder<HiOrder<=n+1", tag)
			continue
		}
		if conf >= 1 {
			if res.LoOrder != 0 || res.HiOrder != n+1 || res.Confidence != 1 {
				r.Fail("c>=1", "%s: want the whole range with Confidence 1", tag)
			}
			continue
		}
		if res.Confidence < conf-1e-12 || math.IsNaN(res.Confidence) {
			r.Fail("confidence-below-c", "%s: Confidence below the requested level", tag)
		}
		if n <= 30 {
			m := mass(res.LoOrder, res.HiOrder)
			if !r.Err("Confidence-exact", ref.AbsDiff(res.Confidence, m), 1e-9) {
				r.Fail("Confidence-exact", "%s: exact Binomial mass of buckets %d..%d is %v", tag, res.LoOrder, res.HiOrder-1, ref.F(m))
			}
			// contains a mode (a bucket whose mass is maximal up to 1e-12 relative:
			// the float q can make two mathematically tied buckets differ by 1e-16)
			maxm := new(big.Rat)
			for _, mk := range masses {
				if mk.Cmp(maxm) > 0 {
					maxm = mk
				}
			}
			thr := ref.Mul(maxm, ref.R(1-1e-12))
			var modes []int
			hasMode := false
			for k, mk := range masses {
				if mk.Cmp(thr) >= 0 {
					modes = append(modes, k)
					if k >= res.LoOrder && k <= res.HiOrder-1 {
						hasMode = true
					}
				}
			}
			if !hasMode {
				r.Fail("mode", "%s: interval does not contain a binomial mode %v", tag, modes)
			}
			// one end bucket is necessary
			mf := ref.F(m)
			a, b := ref.F(mass(res.LoOrder, res.LoOrder+1)), ref.F(mass(res.HiOrder-1, res.HiOrder))
			if !(mf-a < conf+1e-12 || mf-b < conf+1e-12) {
				r.Fail("minimal", "%s: both end buckets can be dropped (masses %v, %v) and the level %v is still reached", tag, a, b, conf)
			}
			// nesting as c grows
			if prevLo >= 0 && (res.LoOrder > prevLo || res.HiOrder < prevHi) {
				r.Fail("nesting", "%s: previous (smaller c) interval was [%d,%d)", tag, prevLo, prevHi)
			}
			prevLo, prevHi = res.LoOrder, res.HiOrder
			if res.Ambiguous {
				sh := mass(res.LoOrder+1, res.HiOrder+1)
				if res.HiOrder+1 > n+1 || ref.AbsDiff(mf, sh) > 1e-9 {
					r.Fail("ambiguous", "%s: shifted interval has mass %v, this one %v", tag, ref.F(sh), mf)
				}
			}
			continue
		}
		// --- n > 30: the statement's normal construction ---------------------
		c11Normal(n, q, conf, res, tag, r)
	}
}

func b2u(b bool) uint64 {
	if b {
		return 1
	}
	return 0
}

func c11Normal(n int, q, conf float64, res stats.QuantileCIResult, tag string, r *core.Rec) {
	const prec = 200
	bf := func(x float64) *big.Float { return new(big.Float).SetPrec(prec).SetFloat64(x) }
	mu := new(big.Float).SetPrec(prec).Mul(bf(float64(n)), bf(q))
	v := new(big.Float).SetPrec(prec).Mul(mu, new(big.Float).SetPrec(prec).Sub(bf(1), bf(q)))
	sigma := ref.Sqrt(v)
	hw := new(big.Float).SetPrec(prec).Mul(c11Z(conf), sigma)
	l1 := new(big.Float).SetPrec(prec).Sub(mu, hw)
	r1 := new(big.Float).SetPrec(prec).Add(mu, hw)
	l1f, _ := l1.Float64()
	r1f, _ := r1.Float64()
	delta := 1e-7
	var los, his []int
	for _, d := range []float64{-delta, 0, delta} {
		lo := int(math.Floor(l1f+d-0.5)) + 1
		hi := int(math.Ceil(r1f+d-0.5)) + 1
		los = appendUnique(los, lo)
		his = appendUnique(his, hi)
	}
	normMass := func(lo, hi int) float64 {
		if sigma.Sign() == 0 {
			muf, _ := mu.Float64()
			if float64(lo)-0.5 < muf && muf < float64(hi)-0.5 {
				return 1
			}
			return 0
		}
		a := new(big.Float).SetPrec(prec).Sub(bf(float64(hi)-0.5), mu)
		a.Quo(a, sigma)
		b := new(big.Float).SetPrec(prec).Sub(bf(float64(lo)-0.5), mu)
		b.Quo(b, sigma)
		m := new(big.Float).SetPrec(prec).Sub(ref.NormCDFBig(a), ref.NormCDFBig(b))
		f, _ := m.Float64()
		return f
	}
	clamp := func(lo, hi int) (int, int) {
		if lo < 0 {
			lo = 0
		}
		if hi > n+1 {
			hi = n + 1
		}
		return lo, hi
	}
	var tried []string
	for _, lo := range los {
		for _, hi := range his {
			for _, amb := range []bool{false, true} {
				h := hi
				if amb {
					h = hi - 1
				}
				wantConf := normMass(lo, h)
				wantAmb := amb
				if lo <= 0 && h >= n+1 {
					wantConf, wantAmb = 1, false
				}
				if amb && !(wantConf >= conf-1e-12) {
					continue // the lower upper end is only allowed when the level is still met
				}
				cl, ch := clamp(lo, h)
				tried = append(tried, fmt.Sprintf("[%d,%d) conf %v amb %v", cl, ch, wantConf, wantAmb))
				if res.LoOrder == cl && res.HiOrder == ch && res.Ambiguous == wantAmb && math.Abs(res.Confidence-wantConf) <= 1e-9 {
					r.Err("Confidence-normal", math.Abs(res.Confidence-wantConf), 1e-9)
					return
				}
			}
		}
	}
	r.Fail("normal-band", "%s: the central band is [%v,%v]; acceptable results: %v", tag, l1f, r1f, tried)
}

func appendUnique(xs []int, v int) []int {
	for _, x := range xs {
		if x == v {
			return xs
		}
	}
	return append(xs, v)
}

func c11SampleCI(c *C11Sample, r *core.Rec) {
	n := len(c.Xs)
	ci := stats.QuantileCI(n, c.Q, c.C)
	xs := withSpare(c.Xs)
	snap := snapFull(xs)
	s := stats.Sample{Xs: xs}
	q, lo, hi := ci.SampleCI(s)
	r.Trans(1)
	r.NT()
	sorted := append([]float64{}, c.Xs...)
	sort.Float64s(sorted)
	wantQ := stats.Sample{Xs: sorted, Sorted: true}.Quantile(c.Q)
	wantLo, wantHi := math.Inf(-1), math.Inf(1)
	if ci.LoOrder >= 1 {
		wantLo = sorted[ci.LoOrder-1]
	}
	if ci.HiOrder <= n {
		wantHi = sorted[ci.HiOrder-1]
	}
	if !sameF(q, wantQ) || lo != wantLo || hi != wantHi {
		r.Fail("SampleCI", "xs=%v q=%v c=%v ci=%+v: SampleCI=(%v,%v,%v), want (%v,%v,%v)", trunc(c.Xs), c.Q, c.C, ci, q, lo, hi, wantQ, wantLo, wantHi)
	}
	if !snap.same(xs) || s.Sorted {
		r.Fail("SampleCI-modified", "SampleCI modified the sample")
	}
	// the Sorted flag on sorted data gives the same answer
	q2, lo2, hi2 := ci.SampleCI(stats.Sample{Xs: sorted, Sorted: true})
	if !sameF(q2, q) || lo2 != lo || hi2 != hi {
		r.Fail("SampleCI-sorted", "sorted+flag gives (%v,%v,%v), unsorted (%v,%v,%v)", q2, lo2, hi2, q, lo, hi)
	}
}

func c11Run(c *core.Ctx) {
	r := c.R
	var qs []float64
	for k := 0; k <= 40; k++ {
		qs = append(qs, float64(k)/40)
	}
	qs = append(qs, 1e-9, 1-1e-9, 0.137, 1.0/3, 1.0/7, 0.618, 0.9137)
	ns := []int{}
	for n := 1; n <= 30; n++ {
		ns = append(ns, n)
	}
	big := []int{31, 32, 33, 37, 50, 100, 101, 129, 500, 2000}
	if c.Thorough() {
		big = append(big, 33, 64, 250, 999, 1000, 10000)
		for k := 1; k < 80; k += 2 {
			qs = append(qs, float64(k)/80)
		}
	}
	ns = append(ns, big...)
	cs := &C11Case{}
	for _, n := range ns {
		for _, q := range qs {
			if !c.Mine() {
				continue
			}
			cs.N, cs.Q, cs.Cs = n, q, nil
			r.Case("ci", cs)
			r.Try(func() { c11Check(cs, r) })
		}
	}
	r.Bound("n", fmt.Sprintf("n=1..30 and %v; %d values of q; ~210 + 3*(n+1) confidence levels (incl. 1-1e-3..1-1ulp)", big, len(qs)))
	// SampleCI
	sc := &C11Sample{}
	vals := []float64{-1, 0, 2, 7, 7.5}
	for n := 1; n <= 5; n++ {
		enum.Permutations(n, func(p []int) {
			if !c.Mine() {
				return
			}
			xs := make([]float64, n)
			for i, k := range p {
				xs[i] = vals[k]
			}
			for k := 0; k <= 20; k++ {
				q := float64(k) / 20
				for _, cf := range []float64{0.01, 0.1, 0.3, 0.5, 0.9, 0.99, 1} {
					sc.Xs, sc.Q, sc.C = xs, q, cf
					r.Case("sampleci", sc)
					r.Try(func() { c11SampleCI(sc, r) })
				}
			}
		})
	}
	if c.First() {
		xs := make([]float64, 31)
		for i := range xs {
			xs[i] = float64((i*13)%31) / 2
		}
		for _, q := range []float64{0, 0.1, 0.5, 0.75, 1} {
			for _, cf := range []float64{0.01, 0.5, 0.9, 0.99, 1} {
				sc.Xs, sc.Q, sc.C = xs, q, cf
				r.Case("sampleci", sc)
				r.Try(func() { c11SampleCI(sc, r) })
			}
		}
	}
	r.Bound("SampleCI", "every permutation of samples of size<=5 x 21 q x 7 c; one sample of size 31 x 5 q x 5 c")
}
