package props

import (
	"sort"

	"github.com/aclements/go-moremath/graph"
)

// Definitional graph references shared by C18, C19 and C20.

// GCase is a graph given by adjacency lists (order and multiplicity matter).
type GCase struct {
	Adj  [][]int `json:"adj"`
	Root int     `json:"root"`
	// Light skips the formatting checks (Dot) for the large complete families.
	Light bool `json:"light,omitempty"`
}

func (c *GCase) g() graph.IntGraph {
	g := make(graph.IntGraph, len(c.Adj))
	for i, a := range c.Adj {
		g[i] = append([]int{}, a...)
	}
	return g
}

// refReach returns the nodes reachable from root, optionally with one node
// deleted (del < 0: none).
func refReach(adj [][]int, root, del int) []bool {
	seen := make([]bool, len(adj))
	if root == del {
		return seen
	}
	stack := []int{root}
	seen[root] = true
	for len(stack) > 0 {
		u := stack[len(stack)-1]
		stack = stack[:len(stack)-1]
		for _, v := range adj[u] {
			if v != del && !seen[v] {
				seen[v] = true
				stack = append(stack, v)
			}
		}
	}
	return seen
}

// refDFS returns the pre-order, post-order and Euler event list (+n enter as
// n, exit as -n-1) of the DFS from root following adjacency order, computed
// iteratively.
func refDFS(adj [][]int, root int) (pre, post, events []int) {
	seen := make([]bool, len(adj))
	type frame struct{ n, i int }
	st := []frame{{root, 0}}
	seen[root] = true
	pre = append(pre, root)
	events = append(events, root)
	for len(st) > 0 {
		f := &st[len(st)-1]
		if f.i < len(adj[f.n]) {
			v := adj[f.n][f.i]
			f.i++
			if !seen[v] {
				seen[v] = true
				pre = append(pre, v)
				events = append(events, v)
				st = append(st, frame{v, 0})
			}
			continue
		}
		post = append(post, f.n)
		events = append(events, -f.n-1)
		st = st[:len(st)-1]
	}
	return
}

// refClosure returns reach[u][v] = v reachable from u (reflexive).
func refClosure(adj [][]int) [][]bool {
	r := make([][]bool, len(adj))
	for u := range adj {
		r[u] = refReach(adj, u, -1)
	}
	return r
}

// refSCCKosaraju labels components by an independent algorithm (iterative
// Kosaraju); used for graphs too large for the transitive closure. Labels are
// arbitrary; only the partition is meaningful.
func refSCCKosaraju(adj [][]int) []int {
	n := len(adj)
	radj := make([][]int, n)
	for u, a := range adj {
		for _, v := range a {
			radj[v] = append(radj[v], u)
		}
	}
	seen := make([]bool, n)
	var order []int
	type frame struct{ n, i int }
	for s := 0; s < n; s++ {
		if seen[s] {
			continue
		}
		seen[s] = true
		st := []frame{{s, 0}}
		for len(st) > 0 {
			f := &st[len(st)-1]
			if f.i < len(adj[f.n]) {
				v := adj[f.n][f.i]
				f.i++
				if !seen[v] {
					seen[v] = true
					st = append(st, frame{v, 0})
				}
				continue
			}
			order = append(order, f.n)
			st = st[:len(st)-1]
		}
	}
	comp := make([]int, n)
	for i := range comp {
		comp[i] = -1
	}
	c := 0
	for i := n - 1; i >= 0; i-- {
		s := order[i]
		if comp[s] >= 0 {
			continue
		}
		comp[s] = c
		stack := []int{s}
		for len(stack) > 0 {
			u := stack[len(stack)-1]
			stack = stack[:len(stack)-1]
			for _, v := range radj[u] {
				if comp[v] < 0 {
					comp[v] = c
					stack = append(stack, v)
				}
			}
		}
		c++
	}
	return comp
}

// refIDom computes immediate dominators by the definition: d dominates v iff
// v is reachable from root but not in G - d. Returns -1 for root/unreachable.
// dom[d][v] is also returned (reflexive on reachable nodes).
func refIDom(adj [][]int, root int) (idom []int, dom [][]bool, reach []bool) {
	n := len(adj)
	reach = refReach(adj, root, -1)
	dom = make([][]bool, n)
	for d := 0; d < n; d++ {
		dom[d] = make([]bool, n)
		if !reach[d] {
			continue
		}
		without := refReach(adj, root, d)
		for v := 0; v < n; v++ {
			if reach[v] && (v == d || !without[v]) {
				dom[d][v] = true
			}
		}
	}
	idom = make([]int, n)
	if n > 12 {
		// Large graphs: the dominators of v form a chain, so the immediate dominator
		// is the strict dominator with the most dominators of its own (O(n^2); agrees
		// with the literal definition below on every small graph, checked on each run).
		cnt := make([]int, n)
		for d := 0; d < n; d++ {
			for v := 0; v < n; v++ {
				if dom[d][v] {
					cnt[v]++
				}
			}
		}
		for v := 0; v < n; v++ {
			idom[v] = -1
			if !reach[v] || v == root {
				continue
			}
			best := -1
			for d := 0; d < n; d++ {
				if d != v && dom[d][v] && (best < 0 || cnt[d] > cnt[best]) {
					best = d
				}
			}
			idom[v] = best
		}
		return
	}
	cntSmall := make([]int, n)
	for d := 0; d < n; d++ {
		for v := 0; v < n; v++ {
			if dom[d][v] {
				cntSmall[v]++
			}
		}
	}
	defer func() {
		// conformance of the chain-depth shortcut with the literal definition
		for v := 0; v < n; v++ {
			if idom[v] < 0 {
				continue
			}
			for d := 0; d < n; d++ {
				if d != v && dom[d][v] && cntSmall[d] > cntSmall[idom[v]] {
					panic("refIDom: chain-depth shortcut disagrees with the definition")
				}
			}
		}
	}()
	for v := 0; v < n; v++ {
		idom[v] = -1
		if !reach[v] || v == root {
			continue
		}
		// the strict dominator that every other strict dominator dominates
		for d := 0; d < n; d++ {
			if d == v || !dom[d][v] {
				continue
			}
			ok := true
			for s := 0; s < n; s++ {
				if s != v && s != d && dom[s][v] && !dom[s][d] {
					ok = false
					break
				}
			}
			if ok {
				if idom[v] != -1 {
					panic("refIDom: immediate dominator not unique")
				}
				idom[v] = d
			}
		}
		if idom[v] == -1 {
			panic("refIDom: reachable node without immediate dominator")
		}
	}
	return
}

// refDomFrontier returns DF(x) for every reachable x by the definition.
func refDomFrontier(adj [][]int, root int, dom [][]bool, reach []bool) [][]int {
	n := len(adj)
	preds := make([][]int, n)
	for u, a := range adj {
		for _, v := range a {
			preds[v] = append(preds[v], u)
		}
	}
	df := make([][]int, n)
	for x := 0; x < n; x++ {
		if !reach[x] {
			continue
		}
		for y := 0; y < n; y++ {
			if !reach[y] {
				continue
			}
			if x != y && dom[x][y] {
				continue // x strictly dominates y
			}
			for _, p := range preds[y] {
				if reach[p] && dom[x][p] {
					df[x] = append(df[x], y)
					break
				}
			}
		}
	}
	return df
}

func sortedCopy(x []int) []int {
	y := append([]int{}, x...)
	sort.Ints(y)
	return y
}

func equalInts(a, b []int) bool {
	if len(a) != len(b) {
		return false
	}
	for i := range a {
		if a[i] != b[i] {
			return false
		}
	}
	return true
}

func copyAdj(adj [][]int) [][]int {
	c := make([][]int, len(adj))
	for i, a := range adj {
		c[i] = append([]int{}, a...)
	}
	return c
}

func equalAdj(a, b [][]int) bool {
	if len(a) != len(b) {
		return false
	}
	for i := range a {
		if !equalInts(a[i], b[i]) {
			return false
		}
	}
	return true
}

// --- structured graph families ------------------------------------------------

type famGraph struct {
	name string
	adj  [][]int
	root int
}

// bigFamilies returns the structured graphs on n nodes used to cross storage
// growth boundaries.
func bigFamilies(n int) []famGraph {
	var fs []famGraph
	path := make([][]int, n)
	rpath := make([][]int, n)
	cycle := make([][]int, n)
	star := make([][]int, n)
	tree := make([][]int, n)
	for i := 0; i < n; i++ {
		if i+1 < n {
			path[i] = []int{i + 1}
		}
		if i > 0 {
			rpath[i] = []int{i - 1}
			star[0] = append(star[0], i)
		}
		cycle[i] = []int{(i + 1) % n}
		for _, c := range []int{2*i + 1, 2*i + 2} {
			if c < n {
				tree[i] = append(tree[i], c)
			}
		}
	}
	fs = append(fs, famGraph{"path", path, 0}, famGraph{"reverse-path", rpath, n - 1},
		famGraph{"cycle", cycle, n / 2}, famGraph{"star", star, 0}, famGraph{"binary-tree", tree, 0})
	// layered DAG: layers of width 8, each node points to two nodes of the next layer and one of the layer after
	const w = 8
	dag := make([][]int, n)
	for i := 0; i < n; i++ {
		l, k := i/w, i%w
		for _, t := range []int{(l+1)*w + k, (l+1)*w + (k+3)%w, (l+2)*w + (k+1)%w} {
			if t < n {
				dag[i] = append(dag[i], t)
			}
		}
	}
	fs = append(fs, famGraph{"layered-dag", dag, 0})
	// path with back edges to the root from the high nodes and a tail of unreachable feeders
	mix := make([][]int, n)
	half := n / 2
	for i := 0; i < n; i++ {
		switch {
		case i+1 < half:
			mix[i] = []int{i + 1}
			if i%5 == 0 {
				mix[i] = append(mix[i], 0, i) // back edge and self loop
			}
		case i >= half && i+1 < n:
			mix[i] = []int{i + 1, i % half} // unreachable nodes feeding reachable ones
		}
	}
	fs = append(fs, famGraph{"path+back-edges+unreachable-feeders", mix, 0})
	return fs
}

// circulant multigraph on n nodes: node i points to (i+s) mod n for each s in
// strides, in that order (repeats allowed).
func circulant(n int, strides []int) [][]int {
	adj := make([][]int, n)
	for i := 0; i < n; i++ {
		for _, s := range strides {
			adj[i] = append(adj[i], ((i+s)%n+n)%n)
		}
	}
	return adj
}
