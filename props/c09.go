package props

import (
	"fmt"
	"math"
	"math/big"
	"sort"

	"github.com/aclements/go-moremath/stats"
	"github.com/aclements/go-moremath/vec"

	"verif/mc/core"
	"verif/mc/enum"
	"verif/mc/ref"
)

// C09 — Descriptive statistics equal their definitions, weighted or not, in any order.

type C09Case struct {
	Xs      []float64 `json:"xs"`
	Weights []float64 `json:"weights"` // nil = unweighted
	Geo     bool      `json:"geomean_alphabet,omitempty"`
}

func init() {
	core.Register(&core.Prop{
		ID:    "C09",
		Title: "Descriptive statistics equal their definitions, weighted or not, in any order",
		Run:   c09Run,
		Kinds: []core.Kind{core.ReplayOf("sample", c09Check), core.ReplayOf("samplehist", c09Hist), core.ReplayOf("vec", c09Vec)},
		Rule: "every sequence (order matters, so all permutations) of length 0..n over {-2,0,0.5,1,4}+offset crossed with every weight vector over {0,1,2,3} and nil, offsets {0,1e3,1e6,1e9}; GeoMean on {0.25,0.5,1,2,8} plus non-positive values; structured n in {50,199,200}; " +
			"explicit-state BFS over Sample histories (Sort, Copy, mark Sorted, reverse) with every observer compared in every state; vec helpers on a complete small lattice. " +
			"Non-trivial: >=2 values with non-zero spread, or a zero weight present.",
		Technique: "bounded-exhaustive sequence x weight-vector enumeration + explicit-state BFS over Sample histories; exact big.Rat oracle with explicit forward-error bounds",
		Assumptions: []string{
			"weighted Variance/StdDev/MeanCI are documented 'not implemented' panics and never called on weighted samples",
			"weighted GeoMean is compared only on positive data (GeoMean's documented precondition); the NaN rule is checked for unweighted data as the statement says",
			"tolerances: Sum 2n eps sum|xw|; Mean 8n eps max|x|; Variance 8n eps var sqrt(1+mean^2/varpop); GeoMean 16n eps relative",
			"Sorted is only set on ascending data",
		},
	})
}

// c09Expand returns the unweighted sample in which each value is repeated weight times.
func c09Expand(xs, ws []float64) []float64 {
	if ws == nil {
		return xs
	}
	var out []float64
	for i, x := range xs {
		for k := 0; k < int(ws[i]); k++ {
			out = append(out, x)
		}
	}
	return out
}

func sameF(a, b float64) bool {
	return math.Float64bits(a) == math.Float64bits(b) || (math.IsNaN(a) && math.IsNaN(b))
}

// c09Observe checks every observer of a Sample against the exact statistics
// of its multiset. tag prefixes messages.
func c09Observe(s stats.Sample, geo bool, r *core.Rec, tag string) {
	xs, ws := s.Xs, s.Weights
	ex := c09Expand(xs, ws)
	mo := ref.ExactMoments(ex)
	n := float64(len(xs))
	if n == 0 {
		n = 1
	}
	// Weight
	wantW := float64(len(ex))
	if got := s.Weight(); got != wantW {
		r.Fail("Weight", "%s: Weight()=%v want %v", tag, got, wantW)
	}
	// Sum
	sumAbs := 0.0
	for i, x := range xs {
		w := 1.0
		if ws != nil {
			w = ws[i]
		}
		sumAbs += math.Abs(x * w)
	}
	if !r.Err("Sum", ref.AbsDiff(s.Sum(), mo.Total), 2*n*ref.Eps*sumAbs) {
		r.Fail("Sum", "%s: Sum()=%v exact %v", tag, s.Sum(), mo.TotalF)
	}
	// Bounds
	lo, hi := s.Bounds()
	if len(ex) == 0 {
		if !math.IsNaN(lo) || !math.IsNaN(hi) {
			r.Fail("Bounds-empty", "%s: Bounds()=(%v,%v) for a sample without weight, want NaN", tag, lo, hi)
		}
	} else if lo != mo.Min || hi != mo.Max {
		r.Fail("Bounds", "%s: Bounds()=(%v,%v) want (%v,%v)", tag, lo, hi, mo.Min, mo.Max)
	}
	// Mean
	m := s.Mean()
	if len(ex) == 0 {
		if len(xs) == 0 && !math.IsNaN(m) {
			r.Fail("Mean-empty", "%s: Mean()=%v for an empty sample, want NaN", tag, m)
		}
	} else if !r.Err("Mean", ref.AbsDiff(m, mo.Mean), 8*n*ref.Eps*mo.MaxAbs) {
		r.Fail("Mean", "%s: Mean()=%v exact %v (xs=%v weights=%v)", tag, m, mo.MeanF, trunc(xs), trunc(ws))
	}
	// GeoMean
	if geo && len(ex) > 0 {
		pos := true
		for i, x := range xs {
			if x <= 0 && (ws == nil || ws[i] > 0) {
				pos = false
			}
		}
		g := s.GeoMean()
		if pos {
			pow2, maxLn := true, 0.0
			for _, x := range ex {
				if f, _ := math.Frexp(x); f != 0.5 {
					pow2 = false
				}
				maxLn = math.Max(maxLn, math.Abs(math.Log(x)))
			}
			var want float64
			tol := 16 * n * ref.Eps
			if pow2 {
				se := new(big.Rat)
				for _, x := range ex {
					_, e := math.Frexp(x)
					se.Add(se, ref.RI(int64(e-1)))
				}
				want = math.Exp2(ref.F(se.Quo(se, ref.RI(int64(len(ex))))))
			} else {
				// general positive data: exp(mean ln x) in 300-bit arithmetic; a float64 evaluation
				// carries eps*|ln x| per term, so the tolerance grows with the dynamic range
				sum := new(big.Float).SetPrec(300)
				for _, x := range ex {
					sum.Add(sum, ref.Log(new(big.Float).SetPrec(300).SetFloat64(x)))
				}
				sum.Quo(sum, new(big.Float).SetPrec(300).SetInt64(int64(len(ex))))
				want = ref.ToF(ref.Exp(sum))
				tol += 4 * maxLn * ref.Eps
			}
			if !r.Err("GeoMean", math.Abs(g-want)/want, tol) {
				r.Fail("GeoMean", "%s: GeoMean()=%v exact %v (xs=%v weights=%v)", tag, g, want, trunc(xs), trunc(ws))
			}
		} else if ws == nil && !math.IsNaN(g) {
			r.Fail("GeoMean-NaN", "%s: GeoMean()=%v for unweighted data with a non-positive value, want NaN", tag, g)
		}
	}
	if ws != nil {
		return
	}
	// Variance / StdDev (unweighted only)
	v := s.Variance()
	switch {
	case len(xs) == 0:
		if !math.IsNaN(v) {
			r.Fail("Variance-empty", "%s: Variance()=%v for empty data", tag, v)
		}
	case len(xs) == 1:
		if v != 0 {
			r.Fail("Variance-one", "%s: Variance()=%v for one value", tag, v)
		}
	case mo.Var.Sign() == 0:
		if v != 0 {
			r.Fail("Variance", "%s: Variance()=%v exact 0", tag, v)
		}
	default:
		tol := 8 * n * ref.Eps * mo.VarF * mo.CondVar
		if !r.Err("Variance", ref.AbsDiff(v, mo.Var), tol) {
			r.Fail("Variance", "%s: Variance()=%v exact %v (xs=%v)", tag, v, mo.VarF, trunc(xs))
		}
		sd := ref.SqrtRat(mo.Var)
		if !r.Err("StdDev", math.Abs(s.StdDev()-sd), tol/(2*sd)+4*ref.Eps*sd) {
			r.Fail("StdDev", "%s: StdDev()=%v exact %v", tag, s.StdDev(), sd)
		}
	}
	// the slice functions agree bit-for-bit with the Sample methods on unweighted data
	if !sameF(stats.Mean(xs), m) || !sameF(stats.Variance(xs), v) || !sameF(stats.StdDev(xs), s.StdDev()) || !sameF(vec.Sum(xs), s.Sum()) {
		r.Fail("slice-vs-sample", "%s: slice functions and Sample methods disagree on unweighted data", tag)
	}
	if geo && !sameF(stats.GeoMean(xs), s.GeoMean()) {
		r.Fail("slice-vs-sample", "%s: GeoMean slice/Sample disagree", tag)
	}
	bl, bh := stats.Bounds(xs)
	if !sameF(bl, lo) || !sameF(bh, hi) {
		r.Fail("slice-vs-sample", "%s: Bounds slice/Sample disagree", tag)
	}
}

func c09Check(c *C09Case, r *core.Rec) {
	xs := withSpare(c.Xs)
	var ws []float64
	if c.Weights != nil {
		ws = withSpare(c.Weights)
	}
	sx, sw := snapFull(xs), snapFull(ws)
	s := stats.Sample{Xs: xs, Weights: ws}
	lo, hi := math.Inf(1), math.Inf(-1)
	zero := false
	for i, x := range xs {
		lo, hi = math.Min(lo, x), math.Max(hi, x)
		if ws != nil && ws[i] == 0 {
			zero = true
		}
	}
	if (len(xs) >= 2 && hi > lo) || zero {
		r.NT()
	}
	c09Observe(s, c.Geo, r, "sample")
	r.Trans(8)
	r.OutcomeF(s.Mean(), s.Sum())
	if !sx.same(xs) || (ws != nil && !sw.same(ws)) {
		r.Fail("modified", "an observer modified the sample")
	}
	// Sorted flag on ascending data changes nothing (bitwise)
	if sort.Float64sAreSorted(xs) && len(xs) > 0 {
		t := stats.Sample{Xs: xs, Weights: ws, Sorted: true}
		a1, a2 := s.Bounds()
		b1, b2 := t.Bounds()
		if !sameF(a1, b1) || !sameF(a2, b2) || !sameF(s.Mean(), t.Mean()) || !sameF(s.Sum(), t.Sum()) || !sameF(s.Weight(), t.Weight()) {
			r.Fail("Sorted-flag", "marking ascending data Sorted changed a result: Bounds (%v,%v) vs (%v,%v)", a1, a2, b1, b2)
		}
		if ws == nil && (!sameF(s.Variance(), t.Variance()) || !sameF(s.Quantile(0.3), t.Quantile(0.3)) || !sameF(s.IQR(), t.IQR())) {
			r.Fail("Sorted-flag", "marking ascending data Sorted changed Variance/Quantile/IQR")
		}
	}
}

// --- E-hist on Sample ---------------------------------------------------------

type C09HistCase struct {
	Xs      []float64 `json:"xs"`
	Weights []float64 `json:"weights"`
	Ops     []string  `json:"ops"`
}

type pair struct{ x, w float64 }

func pairsOf(s *stats.Sample) []pair {
	ps := make([]pair, len(s.Xs))
	for i, x := range s.Xs {
		w := 1.0
		if s.Weights != nil {
			w = s.Weights[i]
		}
		ps[i] = pair{x, w}
	}
	sort.Slice(ps, func(i, j int) bool {
		if ps[i].x != ps[j].x {
			return ps[i].x < ps[j].x
		}
		return ps[i].w < ps[j].w
	})
	return ps
}

func samePairs(a, b []pair) bool {
	if len(a) != len(b) {
		return false
	}
	for i := range a {
		if a[i] != b[i] {
			return false
		}
	}
	return true
}

var c09Ops = []string{"sort", "copy", "mark", "reverse", "rotate", "rewrite"}

func c09ApplyOp(s *stats.Sample, op string, model []pair, r *core.Rec) *stats.Sample {
	switch op {
	case "sort":
		ret := s.Sort()
		if ret != s {
			r.Fail("Sort-return", "Sort did not return its receiver")
		}
		if !s.Sorted || !sort.Float64sAreSorted(s.Xs) {
			r.Fail("Sort-order", "after Sort: Sorted=%v Xs=%v", s.Sorted, s.Xs)
		}
		if !samePairs(pairsOf(s), model) {
			r.Fail("Sort-pairs", "Sort detached weights from values: now %v/%v, multiset was %v", s.Xs, s.Weights, model)
		}
	case "copy":
		c := s.Copy()
		if !samePairs(pairsOf(c), model) || c.Sorted != s.Sorted || (c.Weights == nil) != (s.Weights == nil) {
			r.Fail("Copy-content", "Copy differs from the original: %+v vs %+v", *c, *s)
		}
		if !equalF(c.Xs, s.Xs) || !equalF(c.Weights, s.Weights) {
			r.Fail("Copy-content", "Copy reordered the data")
		}
		// no shared storage: scribble on the copy (up to capacity), original unchanged
		before := snapFull(s.Xs)
		beforeW := snapFull(s.Weights)
		full := c.Xs[:cap(c.Xs)]
		for i := range full {
			full[i] += 1000
		}
		if c.Weights != nil {
			fw := c.Weights[:cap(c.Weights)]
			for i := range fw {
				fw[i] += 1000
			}
		}
		if !before.same(s.Xs) || !beforeW.same(s.Weights) {
			r.Fail("Copy-shares-storage", "writing to the copy changed the original")
		}
		for i := range full {
			full[i] -= 1000
		}
		if c.Weights != nil {
			fw := c.Weights[:cap(c.Weights)]
			for i := range fw {
				fw[i] -= 1000
			}
		}
		return c // continue on the copy
	case "mark":
		if sort.Float64sAreSorted(s.Xs) {
			s.Sorted = true
		}
	case "reverse":
		for i, j := 0, len(s.Xs)-1; i < j; i, j = i+1, j-1 {
			s.Xs[i], s.Xs[j] = s.Xs[j], s.Xs[i]
			if s.Weights != nil {
				s.Weights[i], s.Weights[j] = s.Weights[j], s.Weights[i]
			}
		}
		s.Sorted = false
	case "rewrite":
		// the caller changes a value (and the last weight) in place: same backing arrays,
		// same lengths, different data (an involution, so the state space stays finite)
		if n := len(s.Xs); n > 0 {
			s.Xs[0] = 7.5 - s.Xs[0]
			if s.Weights != nil && s.Weights[n-1] <= 3 {
				s.Weights[n-1] = 3 - s.Weights[n-1]
			}
			s.Sorted = false
			copy(model, pairsOf(s))
		}
	case "rotate":
		if n := len(s.Xs); n > 1 {
			x0 := s.Xs[0]
			copy(s.Xs, s.Xs[1:])
			s.Xs[n-1] = x0
			if s.Weights != nil {
				w0 := s.Weights[0]
				copy(s.Weights, s.Weights[1:])
				s.Weights[n-1] = w0
			}
		}
		s.Sorted = false
	}
	return s
}

func equalF(a, b []float64) bool {
	if len(a) != len(b) {
		return false
	}
	for i := range a {
		if !sameF(a[i], b[i]) {
			return false
		}
	}
	return true
}

func c09StateObserve(s *stats.Sample, model []pair, r *core.Rec) {
	sx, sw, sorted := snapFull(s.Xs), snapFull(s.Weights), s.Sorted
	c09Observe(*s, false, r, "state")
	// quantiles against a fresh computation on the same multiset
	fresh := stats.Sample{Xs: append([]float64{}, s.Xs...)}
	if s.Weights != nil {
		fresh.Weights = append([]float64{}, s.Weights...)
	}
	sort.Sort(&pairSorter{fresh.Xs, fresh.Weights})
	for _, q := range []float64{-0.1, 0, 0.2, 0.5, 0.75, 1, 1.5} {
		a, b := s.Quantile(q), fresh.Quantile(q)
		if s.Weights == nil {
			if !sameF(a, b) {
				r.Fail("hist-Quantile", "Quantile(%v)=%v, fresh computation on the same multiset gives %v (state %+v)", q, a, b, *s)
			}
		} else if !c09WeightedQuantileOK(model, q, a) {
			r.Fail("hist-Quantile-weighted", "Quantile(%v)=%v is not a first value whose cumulative weight exceeds q*W (state %+v)", q, a, *s)
		}
	}
	if s.Weights == nil {
		if a, b := s.IQR(), fresh.IQR(); !sameF(a, b) {
			r.Fail("hist-IQR", "IQR()=%v, fresh %v", a, b)
		}
	}
	if !sx.same(s.Xs) || !sw.same(s.Weights) || s.Sorted != sorted {
		r.Fail("hist-modified", "an observer modified the sample state")
	}
}

// c09WeightedQuantileOK accepts the value of any tie-ordering of equal xs.
func c09WeightedQuantileOK(model []pair, q, got float64) bool {
	if len(model) == 0 {
		return math.IsNaN(got)
	}
	W := 0.0
	for _, p := range model {
		W += p.w
	}
	if q <= 0 {
		for _, p := range model {
			if p.w != 0 {
				return got == p.x
			}
		}
		return math.IsNaN(got)
	}
	if q >= 1 {
		for i := len(model) - 1; i >= 0; i-- {
			if model[i].w != 0 {
				return got == model[i].x
			}
		}
		return math.IsNaN(got)
	}
	// group equal xs: cumulative weight is evaluated at group granularity or finer;
	// the answer is the x of the first pair (in some order of ties) whose cumulative weight exceeds qW.
	target := q * W
	cum := 0.0
	for i := 0; i < len(model); {
		j := i
		g := 0.0
		for j < len(model) && model[j].x == model[i].x {
			g += model[j].w
			j++
		}
		if cum+g > target {
			return got == model[i].x
		}
		cum += g
		i = j
	}
	return got == model[len(model)-1].x
}

type pairSorter struct{ xs, ws []float64 }

func (p *pairSorter) Len() int           { return len(p.xs) }
func (p *pairSorter) Less(i, j int) bool { return p.xs[i] < p.xs[j] }
func (p *pairSorter) Swap(i, j int) {
	p.xs[i], p.xs[j] = p.xs[j], p.xs[i]
	if p.ws != nil {
		p.ws[i], p.ws[j] = p.ws[j], p.ws[i]
	}
}

func c09Hist(c *C09HistCase, r *core.Rec) {
	s := &stats.Sample{Xs: withSpare(c.Xs)}
	if c.Weights != nil {
		s.Weights = withSpare(c.Weights)
	}
	model := pairsOf(s)
	c09StateObserve(s, model, r)
	for _, op := range c.Ops {
		s = c09ApplyOp(s, op, model, r)
		r.Trans(1)
		c09StateObserve(s, model, r)
	}
}

func c09Key(s *stats.Sample) string {
	return core.DeepKey(s) // every field, exported or not
}

func c09BFS(xs, ws []float64, depth int, r *core.Rec) int64 {
	seen := map[string]bool{}
	type node struct{ ops []string }
	build := func(ops []string, rec *core.Rec) *stats.Sample {
		s := &stats.Sample{Xs: withSpare(xs)}
		if ws != nil {
			s.Weights = withSpare(ws)
		}
		model := pairsOf(s)
		for _, op := range ops {
			s = c09ApplyOp(s, op, model, rec)
		}
		return s
	}
	hc := &C09HistCase{Xs: xs, Weights: ws}
	scratch := core.NewRec("C09", 0)
	s0 := build(nil, scratch)
	seen[c09Key(s0)] = true
	r.Case("samplehist", hc)
	r.Try(func() { c09Hist(hc, r) })
	frontier := []node{{nil}}
	for d := 0; d < depth; d++ {
		var next []node
		for _, nd := range frontier {
			for _, op := range c09Ops {
				ops := append(append([]string{}, nd.ops...), op)
				var s *stats.Sample
				p := core.Catch(func() { s = build(ops, scratch) })
				r.Trans(1)
				// Every transition is checked through the replayable history check (an
				// operation such as Copy returns to an already seen state, but its own
				// post-conditions - no shared storage - belong to the transition).
				hc.Ops = ops
				r.Case("samplehist", hc)
				if len(xs) >= 2 {
					r.NT()
				}
				r.Try(func() { c09Hist(hc, r) })
				if p == nil {
					k := c09Key(s)
					if seen[k] {
						continue
					}
					seen[k] = true
					next = append(next, node{ops})
				}
			}
		}
		frontier = next
	}
	hc.Ops = nil
	return int64(len(seen))
}

// --- vec ------------------------------------------------------------------------

type C09VecCase struct {
	Lo  float64 `json:"lo"`
	Hi  float64 `json:"hi"`
	Num int     `json:"num"`
}

func c09Vec(c *C09VecCase, r *core.Rec) {
	r.NT()
	lin := vec.Linspace(c.Lo, c.Hi, c.Num)
	r.Trans(1)
	if len(lin) != c.Num {
		r.Fail("Linspace-len", "len=%d want %d", len(lin), c.Num)
		return
	}
	scale := math.Abs(c.Lo) + math.Abs(c.Hi)
	for i, v := range lin {
		var want *big.Rat
		if c.Num == 1 {
			want = ref.R(c.Lo)
		} else {
			want = ref.Add(ref.R(c.Lo), ref.Quo(ref.Mul(ref.RI(int64(i)), ref.Sub(ref.R(c.Hi), ref.R(c.Lo))), ref.RI(int64(c.Num-1))))
		}
		if !r.Err("Linspace", ref.AbsDiff(v, want), 4*ref.Eps*scale) {
			r.Fail("Linspace", "Linspace(%v,%v,%d)[%d]=%v exact %v", c.Lo, c.Hi, c.Num, i, v, ref.F(want))
		}
	}
	if c.Num >= 1 && lin[0] != c.Lo {
		r.Fail("Linspace-first", "first element %v != lo %v", lin[0], c.Lo)
	}
	for _, base := range []float64{2, 10, math.E} {
		lg := vec.Logspace(c.Lo, c.Hi, c.Num, base)
		r.Trans(1)
		if len(lg) != c.Num {
			r.Fail("Logspace-len", "len=%d want %d", len(lg), c.Num)
			continue
		}
		for i := range lg {
			if want := math.Pow(base, lin[i]); !sameF(lg[i], want) {
				r.Fail("Logspace", "Logspace(%v,%v,%d,%v)[%d]=%v, base**Linspace gives %v", c.Lo, c.Hi, c.Num, base, i, lg[i], want)
			}
		}
	}
	// Map / Vectorize / Sum / Concat on lin
	f := func(x float64) float64 { return 3*x - 1 }
	src := withSpare(lin)
	snap := snapFull(src)
	m := vec.Map(f, src)
	v := vec.Vectorize(f)(src)
	r.Trans(2)
	if len(m) != len(src) || len(v) != len(src) {
		r.Fail("Map-len", "Map/Vectorize changed the length")
	} else {
		for i := range src {
			if !sameF(m[i], f(src[i])) || !sameF(v[i], f(src[i])) {
				r.Fail("Map", "Map/Vectorize element %d = %v/%v want %v", i, m[i], v[i], f(src[i]))
			}
		}
	}
	if len(m) > 0 && len(src) > 0 && &m[0] == &src[0] {
		r.Fail("Map-alias", "Map returned its input storage")
	}
	// one vectorised function applied repeatedly (equal and different lengths): every
	// result keeps its value after the later calls
	if len(src) > 0 {
		g := vec.Vectorize(f)
		other := make([]float64, len(src))
		for i := range other {
			other[i] = src[len(src)-1-i] + 0.5
		}
		r1 := g(src)
		keep1 := append([]float64{}, r1...)
		r2 := g(other)
		keep2 := append([]float64{}, r2...)
		r3 := g(src[:len(src)/2])
		r4 := g(src)
		r.Trans(4)
		for i := range src {
			if !sameF(r1[i], f(src[i])) || !sameF(r2[i], f(other[i])) || !sameF(r4[i], f(src[i])) || (i < len(r3) && !sameF(r3[i], f(src[i]))) {
				r.Fail("Vectorize-retained", "results of one vectorised function after later calls: first=%v (was %v), second=%v (was %v)", trunc(r1), trunc(keep1), trunc(r2), trunc(keep2))
				break
			}
		}
	}
	mo := ref.ExactMoments(src)
	if !r.Err("vec.Sum", ref.AbsDiff(vec.Sum(src), mo.Total), 2*float64(len(src)+1)*ref.Eps*mo.SumAbs) {
		r.Fail("vec.Sum", "Sum=%v exact %v", vec.Sum(src), mo.TotalF)
	}
	// Concat: 0..3 slices with spare capacity, no aliasing, inputs unmodified
	a, b := withSpare(lin), withSpare(m)
	sa, sb := snapFull(a), snapFull(b)
	for k := 0; k <= 3; k++ {
		args := [][]float64{a, b, a}[:k]
		out := vec.Concat(args...)
		r.Trans(1)
		var want []float64
		for _, x := range args {
			want = append(want, x...)
		}
		if !equalF(out, want) {
			r.Fail("Concat", "Concat of %d slices = %v want %v", k, out, want)
		}
		// scribble on the output up to capacity; inputs must not change
		full := out[:cap(out)]
		for i := range full {
			full[i] = -777
		}
		if !sa.same(a) || !sb.same(b) {
			r.Fail("Concat-alias", "writing to Concat's result changed an input")
		}
	}
	if !snap.same(src) {
		r.Fail("vec-modified", "a vec helper modified its input")
	}
}

// --- driver -----------------------------------------------------------------------

var c09Alpha = []float64{-2, 0, 0.5, 1, 4}
var c09GeoAlpha = []float64{0.25, 0.5, 1, 2, 8}
var c09WAlpha = []float64{0, 1, 2, 3}

func c09Run(c *core.Ctx) {
	r := c.R
	maxLen, maxWLen := 5, 4
	offsets := []float64{0, 1e3, 1e6, 1e9}
	if c.Thorough() {
		maxLen, maxWLen = 6, 5
	}
	cs := &C09Case{}
	run := func(xs, ws []float64, geo bool) {
		cs.Xs, cs.Weights, cs.Geo = xs, ws, geo
		r.Case("sample", cs)
		r.Try(func() { c09Check(cs, r) })
	}
	for L := 0; L <= maxLen; L++ {
		enum.Sequences(L, len(c09Alpha), func(s []int) {
			if !c.Mine() {
				return
			}
			for _, off := range offsets {
				xs := make([]float64, L)
				for i, k := range s {
					xs[i] = c09Alpha[k] + off
				}
				run(xs, nil, false)
				if L <= maxWLen && (off == 0 || off == 1e9) {
					enum.Sequences(L, len(c09WAlpha), func(wi []int) {
						ws := make([]float64, L)
						for i, k := range wi {
							ws[i] = c09WAlpha[k]
						}
						run(xs, ws, false)
					})
				}
			}
			// GeoMean alphabet (positive powers of two), same index sequence
			gx := make([]float64, L)
			for i, k := range s {
				gx[i] = c09GeoAlpha[k]
			}
			run(gx, nil, true)
			if L <= maxWLen {
				enum.Sequences(L, len(c09WAlpha), func(wi []int) {
					ws := make([]float64, L)
					for i, k := range wi {
						ws[i] = c09WAlpha[k]
					}
					run(gx, ws, true)
					// zero-weight values are repeated 0 times, so even a non-positive
					// value at a zero weight must not influence the weighted GeoMean
					for _, bad := range []float64{0, -1} {
						nx := append([]float64{}, gx...)
						any := false
						for i := range nx {
							if ws[i] == 0 {
								nx[i] = bad
								any = true
							}
						}
						if any {
							run(nx, ws, true)
						}
					}
				})
			}
			// the NaN rule: one non-positive value at every position
			for pos := 0; pos < L; pos++ {
				for _, bad := range []float64{0, -1} {
					nx := append([]float64{}, gx...)
					nx[pos] = bad
					run(nx, nil, true)
				}
			}
		})
	}
	r.Bound("sequences", fmt.Sprintf("every sequence of length<=%d over 5 values x 4 offsets; every weight vector over {0,1,2,3} for length<=%d", maxLen, maxWLen))
	// structured sizes to 200
	for _, n := range []int{50, 199, 200} {
		for pat := 0; pat < 5; pat++ {
			for _, off := range offsets {
				if !c.Mine() {
					continue
				}
				xs := make([]float64, n)
				ws := make([]float64, n)
				for i := range xs {
					switch pat {
					case 0:
						xs[i] = off + float64((i*37)%n)/8
					case 1:
						xs[i] = off + float64(i%2)
					case 2:
						xs[i] = off + float64(i*i%101)/4
					case 3:
						xs[i] = off + 1
					case 4:
						xs[i] = off + float64(n-i)
					}
					ws[i] = float64((i * 7) % 4)
				}
				run(xs, nil, false)
				run(xs, ws, false)
				if off == 0 {
					gx := make([]float64, n)
					for i := range gx {
						gx[i] = math.Ldexp(1, (i*5)%9-4)
					}
					run(gx, nil, true)
					run(gx, ws, true)
				}
			}
		}
	}
	// GeoMean over a wide dynamic range (the product of the values under- or overflows
	// although the geometric mean does not): every order of 4 values, and long runs of
	// small / large values
	if c.First() {
		wide := []float64{1e-200, 3e-120, 1e150, 7e100}
		enum.Permutations(4, func(p []int) {
			xs := make([]float64, 4)
			for i, k := range p {
				xs[i] = wide[k]
			}
			run(xs, nil, true)
			run(xs, []float64{1, 2, 1, 3}, true)
		})
		for _, scale := range []float64{1e-8, 1e-30, 1e25, 3} {
			xs := make([]float64, 45)
			for i := range xs {
				xs[i] = scale * (1 + float64((i*7)%45)/64)
			}
			run(xs, nil, true)
		}
	}
	r.Bound("large", "n in {50,199,200} x 5 patterns x 4 offsets, unweighted and weighted; GeoMean on 24 orders of a 350-decade range and 45-value runs at 4 scales")
	// E-hist
	depth := 4
	if c.Thorough() {
		depth = 5
	}
	vals := []float64{1, 2, 2, 5}
	for L := 0; L <= 3; L++ {
		enum.Sequences(L, len(vals), func(s []int) {
			xs := make([]float64, L)
			for i, k := range s {
				xs[i] = vals[k]
			}
			if c.Mine() {
				r.State(c09BFS(xs, nil, depth, r))
			}
			enum.Sequences(L, 3, func(wi []int) {
				if !c.Mine() {
					return
				}
				ws := make([]float64, L)
				for i, k := range wi {
					ws[i] = float64(k)
				}
				r.State(c09BFS(xs, ws, depth, r))
			})
		})
	}
	r.Bound("sample_histories", fmt.Sprintf("initial samples of length<=3 over {1,2,2,5} x weights nil/{0,1,2}; ops {sort,copy,mark,reverse,rotate} to depth %d", depth))
	// vec
	vc := &C09VecCase{}
	// sizes around chunking thresholds an implementation might introduce
	for _, num := range []int{255, 256, 257, 511, 512, 513, 1023, 1024, 1025, 1536, 2000, 4096, 4097, 10000} {
		if !c.Mine() {
			continue
		}
		vc.Lo, vc.Hi, vc.Num = -1, 3, num
		r.Case("vec", vc)
		r.Try(func() { c09Vec(vc, r) })
	}
	for _, lo := range []float64{-3, 0, 0.1, 1, 1e9} {
		for _, hi := range []float64{-3, 0, 0.7, 1, 10, 1e9 + 8} {
			for num := 0; num <= 9; num++ {
				if !c.Mine() {
					continue
				}
				vc.Lo, vc.Hi, vc.Num = lo, hi, num
				r.Case("vec", vc)
				r.Try(func() { c09Vec(vc, r) })
			}
		}
	}
}
