package props

import (
	"fmt"
	"math"
	"math/big"
	"sort"

	"github.com/aclements/go-moremath/mathx"
	"gonum.org/v1/gonum/mathext"

	"verif/mc/core"
	"verif/mc/ref"
)

// C08 — mathx special functions are accurate and obey their identities.

type C08Beta struct {
	A float64 `json:"a"`
	B float64 `json:"b"`
}

type C08Gamma struct {
	A float64 `json:"a"`
}

type C08Choose struct {
	N int `json:"n"`
}

type C08Misc struct {
	What string `json:"what"`
}

func init() {
	core.Register(&core.Prop{
		ID:    "C08",
		Title: "mathx special functions are accurate and obey their identities",
		Run:   c08Run,
		Kinds: []core.Kind{
			core.ReplayOf("betainc", c08Beta), core.ReplayOf("gammainc", c08Gamma),
			core.ReplayOf("choose", c08Choose), core.ReplayOf("misc", c08Misc),
		},
		Rule: "BetaInc on the full (a,b) lattice x an x lattice that contains k/64, extreme values and the branch switch-over (a+1)/(a+b+2) +-0,1,2 ulp; GammaInc/GammaIncComp on an (a,x) lattice containing x=a+1 +-0,1,2 ulp; " +
			"every (n,k), 0<=n<=1000, -1<=k<=n+1, for Choose/Lchoose; Beta on the lattice; Sign on 13 values incl. both signs of NaN. Oracle: closed forms in 640-bit big.Float / big.Int for integer parameters, gonum/mathext elsewhere (cross-checked against the closed forms on every integer point). " +
			"A case (one parameter row) is non-trivial when it has interior arguments.",
		Technique: "bounded-exhaustive lattice enumeration (exhaustive for Choose) of the real mathx functions against closed-form big.Float/big.Int references and gonum/mathext",
		Assumptions: []string{
			"accuracy 1e-9 (statement); monotonicity decided at lattice resolution with slack 1e-11; range slack 1e-12",
			"complement identity evaluated where 1-x is exact in float64 (dyadic x)",
			"gonum/mathext is the oracle for non-integer parameters; its own agreement with the closed forms is measured on every integer lattice point and reported as margin oracle-vs-closed-form",
		},
	})
}

var c08AB = []float64{0.05, 0.07, 0.1, 0.25, 0.5, 0.75, 1, 1.5, 2, 2.5, 3, 5, 7.5, 10, 20, 35, 50, 100, 150, 200, 250, 299.5, 300}
var c08ABThorough = []float64{0.06, 0.3, 0.9, 1.1, 4, 15, 64, 128, 275.25}

func isInt(x float64) bool { return x == math.Floor(x) && math.Abs(x) < 1e9 }

func c08XLattice(a, b float64, dense int) []float64 {
	var xs []float64
	for k := 0; k <= dense; k++ {
		xs = append(xs, float64(k)/float64(dense))
	}
	for _, t := range []float64{1e-300, 1e-100, 1e-16, 1e-8, 1e-4} {
		xs = append(xs, t, 1-t)
	}
	sw := (a + 1) / (a + b + 2)
	v := sw
	xs = append(xs, v)
	up, dn := v, v
	for i := 0; i < 2; i++ {
		up = math.Nextafter(up, 2)
		dn = math.Nextafter(dn, -1)
		xs = append(xs, up, dn)
	}
	xs = append(xs, a/(a+b))
	sort.Float64s(xs)
	// dedupe
	out := xs[:0]
	for i, x := range xs {
		if x < 0 || x > 1 {
			continue
		}
		if i > 0 && len(out) > 0 && x == out[len(out)-1] {
			continue
		}
		out = append(out, x)
	}
	return out
}

func c08BetaRef(x, a, b float64, r *core.Rec) float64 {
	if isInt(a) && isInt(b) {
		v := ref.ToF(ref.BetaIncInt(x, int(a), int(b)))
		g := mathext.RegIncBeta(a, b, x)
		r.Err("oracle-vs-closed-form(beta)", math.Abs(g-v), 1e-10)
		r.Valid(1)
		return v
	}
	return mathext.RegIncBeta(a, b, x)
}

func c08Beta(c *C08Beta, r *core.Rec) {
	a, b := c.A, c.B
	dense := 64
	xs := c08XLattice(a, b, dense)
	r.NT()
	prev := 0.0
	for _, x := range xs {
		got := mathx.BetaInc(x, a, b)
		r.Trans(1)
		r.OutcomeF(got)
		want := c08BetaRef(x, a, b, r)
		if !r.Err("BetaInc", math.Abs(got-want), 1e-9) {
			r.Fail("BetaInc", "BetaInc(%v,%v,%v)=%v, reference %v", x, a, b, got, want)
		}
		if got < -1e-12 || got > 1+1e-12 || math.IsNaN(got) {
			r.Fail("BetaInc-range", "BetaInc(%v,%v,%v)=%v outside [0,1]", x, a, b, got)
		}
		if got < prev-1e-11 {
			r.Fail("BetaInc-monotone", "BetaInc(.,%v,%v) drops from %v to %v at x=%v", a, b, prev, got, x)
		}
		prev = got
		if x == 0 && got != 0 {
			r.Fail("BetaInc-0", "BetaInc(0,%v,%v)=%v", a, b, got)
		}
		if x == 1 && got != 1 {
			r.Fail("BetaInc-1", "BetaInc(1,%v,%v)=%v", a, b, got)
		}
		// complement identity where 1-x is exact
		if x*float64(dense) == math.Floor(x*float64(dense)) {
			comp := mathx.BetaInc(1-x, b, a)
			r.Trans(1)
			if !r.Err("BetaInc-complement", math.Abs(got+comp-1), 2e-9) {
				r.Fail("BetaInc-complement", "BetaInc(%v,%v,%v)+BetaInc(%v,%v,%v)=%v", x, a, b, 1-x, b, a, got+comp)
			}
		}
	}
	for _, x := range []float64{-0.1, 1.1, -1e-300, -5e-324, -1e-17, 1 + 0x1p-52, -1e9, 1e9, math.Inf(1), math.Inf(-1)} {
		if got := mathx.BetaInc(x, a, b); !math.IsNaN(got) {
			r.Fail("BetaInc-NaN", "BetaInc(%v,%v,%v)=%v, want NaN", x, a, b, got)
		}
	}
	// Beta
	var want float64
	if isInt(a) && isInt(b) {
		num := new(big.Int).MulRange(1, int64(a)-1)
		num.Mul(num, new(big.Int).MulRange(1, int64(b)-1))
		den := new(big.Int).MulRange(1, int64(a+b)-1)
		want = ref.F(new(big.Rat).SetFrac(num, den))
		g := math.Exp(mathext.Lbeta(a, b))
		r.Err("oracle-vs-closed-form(Beta)", math.Abs(g-want)/want, 1e-10)
	} else {
		want = math.Exp(mathext.Lbeta(a, b))
	}
	got := mathx.Beta(a, b)
	if !r.Err("Beta", math.Abs(got-want)/want, 1e-9) {
		r.Fail("Beta", "Beta(%v,%v)=%v, reference %v", a, b, got, want)
	}
	if gs := mathx.Beta(b, a); math.Abs(gs-got) > 1e-12*got {
		r.Fail("Beta-symmetry", "Beta(%v,%v)=%v but Beta(%v,%v)=%v", a, b, got, b, a, gs)
	}
}

var c08GA = []float64{0.05, 0.1, 0.5, 1, 1.5, 2, 3, 5, 10, 30, 100, 200, 300}
var c08GAThorough = []float64{0.07, 0.75, 2.5, 4, 7, 20, 64, 150, 250, 299.5}

func c08Gamma(c *C08Gamma, r *core.Rec) {
	a := c.A
	if a <= 0 || math.IsNaN(a) {
		for _, x := range []float64{0, 0.5, 3} {
			if p, q := mathx.GammaInc(a, x), mathx.GammaIncComp(a, x); !math.IsNaN(p) || !math.IsNaN(q) {
				r.Fail("GammaInc-NaN", "a=%v x=%v: got %v, %v, want NaN", a, x, p, q)
			}
		}
		return
	}
	r.NT()
	xs := []float64{0, 1e-300, 1e-10, a + 10*math.Sqrt(a), 1e3, 1e5, 1e300}
	for k := 1; k <= 80; k++ {
		xs = append(xs, a*float64(k)/20)
	}
	// an absolute grid and the tail in units of the standard deviation: for small a
	// the upper tail is still above 1e-9 far beyond 4a
	for k := 1; k <= 160; k++ {
		xs = append(xs, float64(k)/4)
	}
	for j := -5; j <= 45; j++ {
		if x := a + float64(j)*math.Sqrt(a); x > 0 {
			xs = append(xs, x)
		}
	}
	up, dn := a+1, a+1
	xs = append(xs, a+1)
	for i := 0; i < 2; i++ {
		up = math.Nextafter(up, math.Inf(1))
		dn = math.Nextafter(dn, 0)
		xs = append(xs, up, dn)
	}
	sort.Float64s(xs)
	prevP, prevQ := 0.0, 1.0
	for i, x := range xs {
		if i > 0 && x == xs[i-1] {
			continue
		}
		p, q := mathx.GammaInc(a, x), mathx.GammaIncComp(a, x)
		r.Trans(2)
		r.OutcomeF(p, q)
		var wp, wq float64
		if isInt(a) && x < 1e6 {
			bp, bq := ref.GammaIncInt(int(a), x)
			wp, wq = ref.ToF(bp), ref.ToF(bq)
			if x > 0 {
				r.Err("oracle-vs-closed-form(gamma)", math.Max(math.Abs(mathext.GammaIncReg(a, x)-wp), math.Abs(mathext.GammaIncRegComp(a, x)-wq)), 1e-10)
				r.Valid(1)
			}
		} else if x == 0 {
			wp, wq = 0, 1
		} else {
			wp, wq = mathext.GammaIncReg(a, x), mathext.GammaIncRegComp(a, x)
		}
		if !r.Err("GammaInc", math.Abs(p-wp), 1e-9) {
			r.Fail("GammaInc", "GammaInc(%v,%v)=%v, reference %v", a, x, p, wp)
		}
		if !r.Err("GammaIncComp", math.Abs(q-wq), 1e-9) {
			r.Fail("GammaIncComp", "GammaIncComp(%v,%v)=%v, reference %v", a, x, q, wq)
		}
		if !r.Err("Gamma-sum", math.Abs(p+q-1), 1e-9) {
			r.Fail("Gamma-sum", "GammaInc+GammaIncComp(%v,%v)=%v", a, x, p+q)
		}
		if p < prevP-1e-11 || q > prevQ+1e-11 {
			r.Fail("Gamma-monotone", "a=%v x=%v: P %v->%v, Q %v->%v", a, x, prevP, p, prevQ, q)
		}
		if p < -1e-12 || p > 1+1e-12 || q < -1e-12 || q > 1+1e-12 || math.IsNaN(p) || math.IsNaN(q) {
			r.Fail("Gamma-range", "a=%v x=%v: P=%v Q=%v", a, x, p, q)
		}
		prevP, prevQ = p, q
	}
	for _, x := range []float64{-1e-300, -1, math.NaN(), math.Copysign(math.NaN(), -1), math.Inf(-1), -5e-324} {
		if p, q := mathx.GammaInc(a, x), mathx.GammaIncComp(a, x); !math.IsNaN(p) || !math.IsNaN(q) {
			r.Fail("GammaInc-NaN", "a=%v x=%v: got %v, %v, want NaN", a, x, p, q)
		}
	}
}

func c08Choose(c *C08Choose, r *core.Rec) {
	n := c.N
	if n >= 2 {
		r.NT()
	}
	bin := new(big.Int)
	for k := -1; k <= n+1; k++ {
		got, lg := mathx.Choose(n, k), mathx.Lchoose(n, k)
		r.Trans(2)
		if k < 0 || k > n {
			if got != 0 {
				r.Fail("Choose-range", "Choose(%d,%d)=%v, want 0", n, k, got)
			}
			if !math.IsNaN(lg) {
				r.Fail("Lchoose-range", "Lchoose(%d,%d)=%v, want NaN", n, k, lg)
			}
			continue
		}
		bin.Binomial(int64(n), int64(k))
		want, _ := new(big.Float).SetInt(bin).Float64()
		if n <= 20 {
			if got != want {
				r.Fail("Choose-exact", "Choose(%d,%d)=%v, exact %v", n, k, got, want)
			}
		} else if !r.Err("Choose", math.Abs(got-want)/want, 1e-10) {
			r.Fail("Choose", "Choose(%d,%d)=%v, exact %v", n, k, got, want)
		}
		sym := mathx.Choose(n, n-k)
		if math.Abs(sym-got) > 1e-10*want {
			r.Fail("Choose-symmetry", "Choose(%d,%d)=%v, Choose(%d,%d)=%v", n, k, got, n, n-k, sym)
		}
		wl := ref.ToF(ref.Log(new(big.Float).SetPrec(256).SetInt(bin)))
		if !r.Err("Lchoose", math.Abs(lg-wl), 1e-10) {
			r.Fail("Lchoose", "Lchoose(%d,%d)=%v, exact %v", n, k, lg, wl)
		}
		if n <= 64 {
			r.OutcomeF(got)
		}
	}
}

// c08BetaSweep: Beta(a,b) along a dense sweep of a+b (every 1/16 from 1/4 to 600)
// for four ways of splitting the sum: catches thresholds on a+b (Gamma overflows
// near 171.6) that the coarse (a,b) lattice steps over.
func c08BetaSweep(r *core.Rec) {
	for s16 := 4; s16 <= 600*16; s16++ {
		sum := float64(s16) / 16
		for _, fr := range []float64{0.5, 0.25, 0.1, 0.9371} {
			a := sum * fr
			b := sum - a
			if a < 0.05 || b < 0.05 || a > 300 || b > 300 {
				continue
			}
			got := mathx.Beta(a, b)
			r.Trans(1)
			want := math.Exp(mathext.Lbeta(a, b))
			if want == 0 || math.IsInf(want, 0) {
				continue
			}
			if !r.Err("Beta-sweep", math.Abs(got-want)/want, 1e-9) {
				r.Fail("Beta", "Beta(%v,%v)=%v, reference %v", a, b, got, want)
			}
		}
	}
}

func c08Misc(c *C08Misc, r *core.Rec) {
	r.NT()
	if c.What == "beta-sweep" {
		c08BetaSweep(r)
		return
	}
	cases := []struct{ x, want float64 }{
		{math.Inf(-1), -1}, {-1, -1}, {-5e-324, -1}, {math.Copysign(0, -1), 0}, {0, 0}, {5e-324, 1}, {1, 1}, {math.Inf(1), 1}, {math.NaN(), math.NaN()}, {math.Copysign(math.NaN(), -1), math.NaN()}, {-math.MaxFloat64, -1}, {math.MaxFloat64, 1},
		{-1e308, -1}, {1e-308, 1},
	}
	for _, t := range cases {
		got := mathx.Sign(t.x)
		r.Trans(1)
		if !(got == t.want || (math.IsNaN(got) && math.IsNaN(t.want))) {
			r.Fail("Sign", "Sign(%v)=%v, want %v", t.x, got, t.want)
		}
	}
}

func c08Run(c *core.Ctx) {
	r := c.R
	ab := append([]float64{}, c08AB...)
	ga := append([]float64{}, c08GA...)
	if c.Thorough() {
		ab = append(ab, c08ABThorough...)
		ga = append(ga, c08GAThorough...)
	}
	bc := &C08Beta{}
	for _, a := range ab {
		for _, b := range ab {
			if !c.Mine() {
				continue
			}
			bc.A, bc.B = a, b
			r.Case("betainc", bc)
			r.Try(func() { c08Beta(bc, r) })
		}
	}
	r.Bound("BetaInc", fmt.Sprintf("%d x %d (a,b) lattice x ~82 x per pair", len(ab), len(ab)))
	gc := &C08Gamma{}
	for _, a := range append(append([]float64{}, ga...), 0, -1, -0.5, -1e300) {
		if !c.Mine() {
			continue
		}
		gc.A = a
		r.Case("gammainc", gc)
		r.Try(func() { c08Gamma(gc, r) })
	}
	r.Bound("GammaInc", fmt.Sprintf("%d values of a x ~300 x (a*k/20, k/4 up to 40, a+j*sqrt(a) for j=-5..45, extremes)", len(ga)))
	cc := &C08Choose{}
	for n := 0; n <= 1000; n++ {
		if !c.Mine() {
			continue
		}
		cc.N = n
		r.Case("choose", cc)
		r.Try(func() { c08Choose(cc, r) })
	}
	r.Bound("Choose", "every (n,k), 0<=n<=1000, -1<=k<=n+1")
	if c.Shard == 1%c.NShards {
		mc := &C08Misc{What: "beta-sweep"}
		r.Case("misc", mc)
		r.Try(func() { c08Misc(mc, r) })
	}
	if c.First() {
		mc := &C08Misc{What: "sign"}
		r.Case("misc", mc)
		r.Try(func() { c08Misc(mc, r) })
	}
}
