package props

import (
	"fmt"
	"math"
	"math/big"

	"github.com/aclements/go-moremath/stats"

	"verif/mc/core"
	"verif/mc/enum"
	"verif/mc/ref"
)

// C14 — Histograms conserve samples, bin them by their stated edges, and rank correctly.

type C14Shape struct {
	Log bool    `json:"log,omitempty"`
	Min float64 `json:"min,omitempty"`
	Max float64 `json:"max"`
	N   int     `json:"nbins,omitempty"`
	B   int     `json:"b,omitempty"`
	M   float64 `json:"m,omitempty"`
}

func (s *C14Shape) make() stats.Histogram {
	if s.Log {
		return stats.NewLogHist(s.B, s.M, s.Max)
	}
	return stats.NewLinearHist(s.Min, s.Max, s.N)
}

type C14Hist struct {
	Shape C14Shape  `json:"shape"`
	Xs    []float64 `json:"adds"`
}

func init() {
	core.Register(&core.Prop{
		ID:    "C14",
		Title: "Histograms conserve samples, bin them by their stated edges, and rank correctly",
		Run:   c14Run,
		Kinds: []core.Kind{core.ReplayOf("add1", c14Add1), core.ReplayOf("b2v", c14B2V), core.ReplayOf("hist", c14HistCheck), core.ReplayOf("pair", c14Pair)},
		Rule: "LinearHist shapes nbins x 5 ranges and LogHist shapes b in 2..10 x m in 1..4 x 3 maxima; single Add of every value of an edge alphabet (every edge +-0,1,2 ulp, mid-points, 16 positions in the strip one bin width below the first edge, far values, 0 and negatives for LogHist); " +
			"explicit-state BFS over Add histories of depth<=6 on a 7-value alphabet (state = counter vector read through Counts, de-duplicated), with HistogramQuantile evaluated for every q=j/total +-1ulp, 0 and 1 in every state; structured streams of 500 Adds. " +
			"Non-trivial: the value lies within one bin of an edge, or the state holds >=2 samples.",
		Technique: "bounded-exhaustive edge-alphabet enumeration + explicit-state BFS over Add histories of the real histograms; oracle = edge comparison on the library's own BinToValue edges and a rank model",
		Assumptions: []string{
			"values within 4 ulp of an edge may fall on either side (statement); the rank convention (0- or 1-based) is left open by the statement, either is accepted when applied consistently to all q of one histogram state",
			"interpolated value: BinToValue(bin + r/count) with r the in-bin rank counted from 0 or from 1",
			"int(NaN)/int(-Inf) conversions for LogHist.Add(x<=0) are as on amd64 (negative)",
		},
	})
}

func ulps(x float64, k int) float64 {
	for ; k > 0; k-- {
		x = math.Nextafter(x, math.Inf(1))
	}
	for ; k < 0; k++ {
		x = math.Nextafter(x, math.Inf(-1))
	}
	return x
}

func nearUlps(a, b float64, k int) bool {
	if a == b {
		return true
	}
	lo, hi := ulps(b, -k), ulps(b, k)
	return a >= lo && a <= hi
}

type c14Counts struct {
	under, over uint
	bins        []uint
}

func c14Read(h stats.Histogram) c14Counts {
	u, b, o := h.Counts()
	return c14Counts{u, o, append([]uint{}, b...)}
}

func (c c14Counts) total() uint {
	t := c.under + c.over
	for _, b := range c.bins {
		t += b
	}
	return t
}

// c14Where classifies x against the histogram's own edges: returns the set of
// acceptable counters (-1 under, nbins over, else the bin).
func c14Where(h stats.Histogram, nbins int, x float64) []int {
	if math.IsNaN(x) {
		return []int{-1}
	}
	edge := func(i int) float64 { return h.BinToValue(float64(i)) }
	if x < edge(0) {
		if nearUlps(x, edge(0), 4) {
			return []int{-1, 0}
		}
		return []int{-1}
	}
	if x >= edge(nbins) {
		if nearUlps(x, edge(nbins), 4) {
			return []int{nbins - 1, nbins}
		}
		return []int{nbins}
	}
	// binary search for the bin with edge(i) <= x < edge(i+1)
	lo, hi := 0, nbins
	for hi-lo > 1 {
		mid := (lo + hi) / 2
		if x >= edge(mid) {
			lo = mid
		} else {
			hi = mid
		}
	}
	acc := []int{lo}
	if nearUlps(x, edge(lo), 4) {
		acc = append(acc, lo-1)
	}
	if nearUlps(x, edge(lo+1), 4) {
		acc = append(acc, lo+1)
	}
	return acc
}

type C14Add1 struct {
	Shape C14Shape `json:"shape"`
	X     float64  `json:"x"`
}

func c14Add1(c *C14Add1, r *core.Rec) {
	h := c.Shape.make()
	before := c14Read(h)
	nb := len(before.bins)
	h.Add(c.X)
	r.Trans(1)
	after := c14Read(h)
	if after.total() != before.total()+1 {
		r.Fail("conservation", "Add(%v) changed the total from %d to %d", c.X, before.total(), after.total())
		return
	}
	moved := -2
	n := 0
	if after.under != before.under {
		moved, n = -1, n+1
	}
	if after.over != before.over {
		moved, n = nb, n+1
	}
	for i := range after.bins {
		if after.bins[i] != before.bins[i] {
			moved, n = i, n+1
		}
	}
	if n != 1 {
		r.Fail("conservation", "Add(%v) moved %d counters", c.X, n)
		return
	}
	acc := c14Where(h, nb, c.X)
	ok := false
	for _, a := range acc {
		if a == moved {
			ok = true
		}
	}
	name := func(i int) string {
		switch {
		case i == -1:
			return "under"
		case i == nb:
			return "over"
		}
		return fmt.Sprintf("bin %d [%v,%v)", i, h.BinToValue(float64(i)), h.BinToValue(float64(i+1)))
	}
	r.Outcome(uint64(moved+5) * 7919)
	if !ok {
		r.Fail("binning-"+map[bool]string{true: "log", false: "linear"}[c.Shape.Log], "shape %+v: Add(%v) was counted in %s, its place is %s", c.Shape, c.X, name(moved), name(acc[0]))
	}
}

// C14Pair is a history over two histograms of different shapes used alternately:
// every value is added to A and then to B (and looked up with At on a LogHist);
// each Add moves exactly one counter of its own histogram, the right one.
type C14Pair struct {
	A  C14Shape  `json:"a"`
	B  C14Shape  `json:"b"`
	Xs []float64 `json:"adds"`
}

func c14Pair(c *C14Pair, r *core.Rec) {
	hs := [2]stats.Histogram{c.A.make(), c.B.make()}
	shapes := [2]*C14Shape{&c.A, &c.B}
	r.NT()
	for _, x := range c.Xs {
		for k, h := range hs {
			before := c14Read(h)
			nb := len(before.bins)
			h.Add(x)
			r.Trans(1)
			after := c14Read(h)
			moved, n := -2, 0
			if after.under != before.under {
				moved, n = -1, n+1
			}
			if after.over != before.over {
				moved, n = nb, n+1
			}
			for i := range after.bins {
				if after.bins[i] != before.bins[i] {
					moved, n = i, n+1
				}
			}
			if n != 1 || after.total() != before.total()+1 {
				r.Fail("pair-conservation", "two histograms used alternately: Add(%v) to %+v moved %d counters", x, *shapes[k], n)
				return
			}
			ok := false
			for _, a := range c14Where(h, nb, x) {
				if a == moved {
					ok = true
				}
			}
			if !ok {
				r.Fail("pair-binning", "two histograms %+v and %+v used alternately: Add(%v) to the %s one was counted in counter %d, its place is %v", c.A, c.B, x, []string{"first", "second"}[k], moved, c14Where(h, nb, x))
				return
			}
		}
	}
}

// c14B2V: BinToValue is increasing and interpolates within a bin.
func c14B2V(c *C14Shape, r *core.Rec) {
	h := c.make()
	_, bins, _ := h.Counts()
	nb := len(bins)
	r.NT()
	prev := math.Inf(-1)
	for i := -2; i <= nb; i++ {
		e0, e1 := h.BinToValue(float64(i)), h.BinToValue(float64(i+1))
		for k := 0; k < 8; k++ {
			f := float64(k) / 8
			got := h.BinToValue(float64(i) + f)
			r.Trans(1)
			var want, tol float64
			if c.Log {
				want = e0 * math.Pow(e1/e0, f)
				tol = 1e-12 * math.Abs(want)
			} else {
				want = e0 + f*(e1-e0)
				tol = 8 * ref.Eps * (math.Abs(c.Min) + math.Abs(c.Max))
			}
			if !r.Err("BinToValue-interp", math.Abs(got-want), tol) {
				r.Fail("BinToValue-interp", "shape %+v: BinToValue(%v)=%v, interpolation between edges %v and %v gives %v", *c, float64(i)+f, got, e0, e1, want)
			}
			if !(got > prev) {
				r.Fail("BinToValue-increasing", "shape %+v: BinToValue(%v)=%v is not above the previous lattice value %v", *c, float64(i)+f, got, prev)
			}
			prev = got
		}
	}
	if !c.Log {
		if e := h.BinToValue(0); e != c.Min {
			r.Fail("BinToValue-edge0", "BinToValue(0)=%v want min=%v", e, c.Min)
		}
		if e := h.BinToValue(float64(nb)); !nearUlps(e, c.Max, 4) {
			r.Fail("BinToValue-edgeN", "BinToValue(nbins)=%v want max=%v", e, c.Max)
		}
	}
}

// c14QuantileModel decides the acceptable outputs of HistogramQuantile for
// sample index idx1 (1-based rank among all samples).
// ok=false means "no such sample: unconstrained".
func c14Locate(h stats.Histogram, cn c14Counts, idx1 int) (nan bool, vals []float64) {
	total := int(cn.total())
	if idx1 <= int(cn.under) || idx1 > total-int(cn.over) {
		return true, nil
	}
	g := idx1 - int(cn.under)
	cum := 0
	for i, c := range cn.bins {
		if g <= cum+int(c) {
			r0 := g - cum - 1
			return false, []float64{h.BinToValue(float64(i) + float64(r0)/float64(c)), h.BinToValue(float64(i) + float64(r0+1)/float64(c))}
		}
		cum += int(c)
	}
	panic("c14Locate: rank not found")
}

func c14CheckQuantiles(h stats.Histogram, cn c14Counts, r *core.Rec, desc string) {
	total := int(cn.total())
	if total == 0 {
		return
	}
	var qs []float64
	for j := 0; j <= total; j++ {
		q := float64(j) / float64(total)
		qs = append(qs, q)
		if j > 0 {
			qs = append(qs, math.Nextafter(q, 0))
		}
		if j < total {
			qs = append(qs, math.Nextafter(q, 1))
		}
		if j < total {
			qs = append(qs, (float64(j)+0.5)/float64(total))
		}
	}
	// sort ascending (they are generated nearly sorted)
	for i := 1; i < len(qs); i++ {
		for k := i; k > 0 && qs[k] < qs[k-1]; k-- {
			qs[k], qs[k-1] = qs[k-1], qs[k]
		}
	}
	got := make([]float64, len(qs))
	for i, q := range qs {
		got[i] = stats.HistogramQuantile(h, q)
		r.Trans(1)
		r.OutcomeF(got[i])
	}
	// candidate ranks per q
	cands := make([][]int, len(qs))
	for i, q := range qs {
		ex := new(big.Rat).Mul(ref.R(q), ref.RI(int64(total)))
		fl := new(big.Int).Div(ex.Num(), ex.Denom())
		k := int(fl.Int64())
		cands[i] = []int{k}
		// The statement's rank is floor(q*total) for the float q. An implementation forms
		// that product in float64, where it can round across a whole number: the only other
		// rank that may legitimately come out is the floor of the ROUNDED product (either
		// operand order gives the same correctly rounded product).
		if kf := int(math.Floor(float64(total) * q)); kf != k {
			cands[i] = append(cands[i], kf)
		}
	}
	var firstFail [2]string
	okConv := [2]bool{true, true}
	for conv := 0; conv < 2; conv++ { // 0: ranks count from 1 (k-th smallest); 1: ranks count from 0
		for i := range qs {
			good := false
			for _, k := range cands[i] {
				idx1 := k + conv
				if idx1 < 1 || idx1 > total {
					good = true // no such sample: unconstrained
					break
				}
				nan, vals := c14Locate(h, cn, idx1)
				if nan {
					if math.IsNaN(got[i]) {
						good = true
					}
					continue
				}
				for _, v := range vals {
					if nearUlps(got[i], v, 8) {
						good = true
					}
				}
			}
			if !good {
				okConv[conv] = false
				firstFail[conv] = fmt.Sprintf("q=%v (rank floor(q*%d)=%v) returned %v", qs[i], total, cands[i], got[i])
				break
			}
		}
	}
	if !okConv[0] && !okConv[1] {
		r.Fail("quantile", "%s counts under=%d bins=%v over=%d: counting ranks from 1: %s; counting ranks from 0: %s", desc, cn.under, cn.bins, cn.over, firstFail[0], firstFail[1])
	}
	// monotone in q over the defined values
	prev := math.Inf(-1)
	for i := range qs {
		if math.IsNaN(got[i]) {
			continue
		}
		if got[i] < prev {
			r.Fail("quantile-monotone", "%s counts under=%d bins=%v over=%d: quantile drops to %v at q=%v", desc, cn.under, cn.bins, cn.over, got[i], qs[i])
			break
		}
		prev = got[i]
	}
	iqr := stats.HistogramIQR(h)
	want := stats.HistogramQuantile(h, 0.75) - stats.HistogramQuantile(h, 0.25)
	if !(iqr == want || (math.IsNaN(iqr) && math.IsNaN(want))) {
		r.Fail("IQR", "HistogramIQR=%v, Quantile(0.75)-Quantile(0.25)=%v", iqr, want)
	}
}

func c14HistCheck(c *C14Hist, r *core.Rec) {
	h := c.Shape.make()
	_, bins, _ := h.Counts()
	nb := len(bins)
	model := make([][]int, 0, len(c.Xs)) // acceptable counters per add
	for _, x := range c.Xs {
		model = append(model, c14Where(h, nb, x))
		h.Add(x)
		r.Trans(1)
	}
	cn := c14Read(h)
	if int(cn.total()) != len(c.Xs) {
		r.Fail("conservation", "after %d Adds the counters sum to %d", len(c.Xs), cn.total())
		return
	}
	if len(c.Xs) >= 2 {
		r.NT()
	}
	// counts must be explainable by the per-add acceptable sets (checked exactly
	// when no add was ambiguous)
	exact := true
	want := make([]int, nb+2)
	for _, m := range model {
		if len(m) != 1 {
			exact = false
			break
		}
		want[m[0]+1]++
	}
	if exact {
		gotv := make([]int, nb+2)
		gotv[0] = int(cn.under)
		gotv[nb+1] = int(cn.over)
		for i, b := range cn.bins {
			gotv[i+1] = int(b)
		}
		if !equalInts(gotv, want) {
			r.Fail("binning-history", "shape %+v adds %v: counters [under bins… over]=%v, edges put them at %v", c.Shape, trunc(c.Xs), gotv, want)
		}
	}
	c14CheckQuantiles(h, cn, r, fmt.Sprintf("shape %+v", c.Shape))
}

func c14LinearShapes(maxBins int) []C14Shape {
	var ss []C14Shape
	ranges := [][2]float64{{0, 1}, {-3, 5}, {10, 10.5}, {1e6, 1e6 + 8}, {-1e-3, 1e-3}}
	for n := 1; n <= maxBins; n++ {
		for _, rg := range ranges {
			ss = append(ss, C14Shape{Min: rg[0], Max: rg[1], N: n})
		}
	}
	return ss
}

func c14LogShapes() []C14Shape {
	var ss []C14Shape
	for b := 2; b <= 10; b++ {
		for m := 1; m <= 4; m++ {
			for _, mx := range []float64{10, 1000, 1e6} {
				ss = append(ss, C14Shape{Log: true, B: b, M: float64(m), Max: mx})
			}
		}
	}
	// shapes that use the whole 1..50 bin range: max = b^(nbins/m)
	for b := 2; b <= 10; b++ {
		for m := 1; m <= 4; m++ {
			for _, nb := range []int{20, 50} {
				mx := math.Pow(float64(b), float64(nb)/float64(m))
				ss = append(ss, C14Shape{Log: true, B: b, M: float64(m), Max: mx})
			}
		}
	}
	return ss
}

// c14Alphabet: the single-add value alphabet of a shape.
func c14Alphabet(s *C14Shape) []float64 {
	h := s.make()
	_, bins, _ := h.Counts()
	nb := len(bins)
	var xs []float64
	e0, e1 := h.BinToValue(0), h.BinToValue(1)
	for i := -2; i <= nb+2; i++ {
		e := h.BinToValue(float64(i))
		for k := -2; k <= 2; k++ {
			xs = append(xs, ulps(e, k))
		}
		xs = append(xs, h.BinToValue(float64(i)+0.5))
	}
	// the strip within one bin width below the first edge
	for k := 1; k <= 16; k++ {
		f := float64(k) / 17
		if s.Log {
			xs = append(xs, e0*math.Pow(e0/e1, f))
		} else {
			xs = append(xs, e0-f*(e1-e0))
		}
	}
	eN := h.BinToValue(float64(nb))
	if s.Log {
		xs = append(xs, 0, -1, -1e9, 1e-300, 0.5, 0.999, eN*1e6, 1e300)
	} else {
		w := eN - e0
		xs = append(xs, e0-100*w, e0-1e9*w, eN+100*w, eN+1e9*w)
	}
	return xs
}

// c14HistAlphabet: 7 values for the E-hist search.
func c14HistAlphabet(s *C14Shape) []float64 {
	h := s.make()
	_, bins, _ := h.Counts()
	nb := len(bins)
	e0 := h.BinToValue(0)
	under := h.BinToValue(-0.5)
	if s.Log {
		under = 0.6
	}
	last := nb - 1
	one := 1
	if one > last {
		one = last
	}
	return []float64{under, e0, h.BinToValue(0.5), h.BinToValue(float64(one) + 0.25), h.BinToValue(float64(last) + 0.75),
		h.BinToValue(float64(nb)), h.BinToValue(float64(nb) + 3)}
}

func c14BFS(s *C14Shape, depth int, r *core.Rec) int64 {
	alpha := c14HistAlphabet(s)
	seen := map[string]bool{}
	type node struct{ path []uint8 }
	frontier := []node{{nil}}
	hc := &C14Hist{Shape: *s}
	// state key: the counter vector plus every field of the histogram object read by
	// reflection (hidden caches or flags keep implementation states apart)
	key := func(h stats.Histogram) string {
		cn := c14Read(h)
		return fmt.Sprint(cn.under, cn.bins, cn.over) + "|" + core.DeepKey(h)
	}
	seen[key(s.make())] = true
	for d := 0; d < depth && len(frontier) > 0; d++ {
		var next []node
		for _, nd := range frontier {
			for a := range alpha {
				path := append(append(make([]uint8, 0, len(nd.path)+1), nd.path...), uint8(a))
				xs := make([]float64, len(path))
				for i, p := range path {
					xs[i] = alpha[p]
				}
				// successor = replay on a fresh histogram + one Add
				h := s.make()
				p := core.Catch(func() {
					for _, x := range xs {
						h.Add(x)
					}
				})
				r.Trans(1)
				hc.Xs = xs
				if p != nil {
					r.Case("hist", hc)
					r.Try(func() { c14HistCheck(hc, r) })
					continue
				}
				// every transition is checked; de-duplication only prunes the frontier
				r.Case("hist", hc)
				r.Try(func() { c14HistCheck(hc, r) })
				k := key(h)
				if seen[k] {
					continue
				}
				seen[k] = true
				next = append(next, node{path})
			}
		}
		frontier = next
	}
	return int64(len(seen))
}

func c14Run(c *core.Ctx) {
	r := c.R
	maxBins, depth := 5, 5
	if c.Thorough() {
		maxBins, depth = 50, 6
	}
	shapes := append(c14LinearShapes(maxBins), c14LogShapes()...)
	ac := &C14Add1{}
	for i := range shapes {
		s := &shapes[i]
		if !c.Mine() {
			continue
		}
		for _, x := range c14Alphabet(s) {
			ac.Shape, ac.X = *s, x
			r.Case("add1", ac)
			r.NT()
			r.Try(func() { c14Add1(ac, r) })
		}
		r.Case("b2v", s)
		r.Try(func() { c14B2V(s, r) })
	}
	r.Bound("single_add", fmt.Sprintf("LinearHist nbins 1..%d x 5 ranges, LogHist 108 shapes, whole edge alphabet", maxBins))
	// E-hist on shapes with few bins (the counter vector is the state)
	var hs []C14Shape
	for _, s := range shapes {
		if (!s.Log && s.N <= 5) || (s.Log && s.Max <= 1000 && s.M <= 2 && (s.B == 2 || s.B == 3 || s.B == 10)) {
			hs = append(hs, s)
		}
	}
	for i := range hs {
		if !c.Mine() {
			continue
		}
		r.State(c14BFS(&hs[i], depth, r))
	}
	r.Bound("histories", fmt.Sprintf("all Add histories of depth<=%d over a 7-value alphabet on %d shapes", depth, len(hs)))
	// two histograms of different shapes used alternately (every ordered pair of the
	// small shapes, same kind and mixed), on the union of their edge alphabets
	pc := &C14Pair{}
	for i := range hs {
		for j := range hs {
			if i == j || !c.Mine() {
				continue
			}
			xs := append(append([]float64{}, c14HistAlphabet(&hs[i])...), c14HistAlphabet(&hs[j])...)
			xs = append(xs, xs...) // every value a second time, after the others
			pc.A, pc.B, pc.Xs = hs[i], hs[j], xs
			r.Case("pair", pc)
			r.Try(func() { c14Pair(pc, r) })
		}
	}
	r.Bound("pairs", fmt.Sprintf("every ordered pair of %d small shapes used alternately", len(hs)))
	// long structured streams
	hc := &C14Hist{}
	for i := range shapes {
		s := &shapes[i]
		if !s.Log && s.N > 8 && s.N != 50 {
			continue
		}
		if !c.Mine() {
			continue
		}
		h := s.make()
		_, bins, _ := h.Counts()
		nb := float64(len(bins))
		for _, L := range []int{7, 50, 500} {
			for pat := 0; pat < 5; pat++ {
				xs := make([]float64, L)
				for j := range xs {
					t := float64(j) / float64(L-1)
					switch pat {
					case 0: // ramp from one bin below to one bin above
						xs[j] = h.BinToValue(-1 + t*(nb+2))
					case 1: // all under
						xs[j] = h.BinToValue(-1 - t)
					case 2: // all over
						xs[j] = h.BinToValue(nb + 0.5 + t)
					case 3: // alternating extremes and middle
						xs[j] = h.BinToValue([]float64{-0.5, nb / 2, nb + 0.5, 0.25}[j%4])
					case 4: // inside only, descending
						xs[j] = h.BinToValue((1 - t) * (nb - 0.001))
					}
				}
				hc.Shape, hc.Xs = *s, xs
				r.Case("hist", hc)
				r.Try(func() { c14HistCheck(hc, r) })
			}
		}
	}
	r.Bound("long_streams", "L in {7,50,500} x 5 structured patterns on every LogHist shape and LinearHist shapes with nbins<=8 or 50")
	_ = enum.Subsets
}
