package props

import (
	"fmt"
	"math"
	"math/big"
	"sort"

	"github.com/aclements/go-moremath/stats"

	"verif/mc/core"
	"verif/mc/enum"
	"verif/mc/ref"
)

// C10 — Sample.Quantile is the Hyndman-Fan type 8 quantile, monotone and bounded.

type C10Case struct {
	Xs      []float64 `json:"xs"`
	Weights []float64 `json:"weights"`
}

func init() {
	core.Register(&core.Prop{
		ID:    "C10",
		Title: "Sample.Quantile is the Hyndman-Fan type 8 quantile, monotone and bounded",
		Run:   c10Run,
		Kinds: []core.Kind{core.ReplayOf("quantile", c10Check)},
		Rule: "every sequence (all orders, repeats) of length 1..n over {-1,0,2,7} and structured samples of 7..12, 50, 199, 200 values; q on -0.5..1.5 in steps of 1/48 plus every break point (k-1/3)/(n+1/3) +-0,1 ulp; " +
			"both settings of Sorted on ascending data; weighted: every weight vector over {1,2,3} and over {0.5,1.25,2} with q hitting every cumulative weight exactly and +-1 ulp. After the lattice each sample is rewritten in place (twice) and queried again. Oracle: exact rational R8 on the exact value of the float q. Non-trivial: >=2 distinct values.",
		Technique: "bounded-exhaustive sequence x q-lattice enumeration of the real Sample.Quantile against an exact rational R8 model",
		Assumptions: []string{
			"tolerance 4 eps (n+1) (range + max|x|): the estimate is continuous in h, so a 1-ulp error in h near a break point is harmless",
			"weighted: when q*W is within 1e-12 relative of a cumulative weight either neighbour is accepted; equal x values are grouped",
			"Sorted is only set on ascending data; q finite",
			"between two equal neighbouring order statistics (ties, constant samples) the estimate must be that value exactly: there is nothing to interpolate, and 'bounded' leaves no room when min = max",
		},
	})
}

// c10R8 is the exact Hyndman-Fan type 8 estimate on sorted data.
func c10R8(sorted []float64, q float64) *big.Rat {
	n := len(sorted)
	if q <= 0 {
		return ref.R(sorted[0])
	}
	if q >= 1 {
		return ref.R(sorted[n-1])
	}
	third := big.NewRat(1, 3)
	h := ref.Add(ref.Mul(ref.Add(ref.RI(int64(n)), third), ref.R(q)), third)
	fl := new(big.Int).Div(h.Num(), h.Denom())
	k := int(fl.Int64())
	if k < 1 {
		return ref.R(sorted[0])
	}
	if k >= n {
		return ref.R(sorted[n-1])
	}
	frac := ref.Sub(h, new(big.Rat).SetInt(fl))
	return ref.Add(ref.R(sorted[k-1]), ref.Mul(frac, ref.Sub(ref.R(sorted[k]), ref.R(sorted[k-1]))))
}

func c10Qs(n int) []float64 {
	var qs []float64
	for k := -24; k <= 72; k++ {
		qs = append(qs, float64(k)/48)
	}
	for k := 1; k <= n; k++ {
		b := (float64(k) - 1.0/3) / (float64(n) + 1.0/3)
		qs = append(qs, b, math.Nextafter(b, 0), math.Nextafter(b, 1))
	}
	sort.Float64s(qs)
	return qs
}

func c10Check(c *C10Case, r *core.Rec) {
	if c.Weights != nil {
		c10Weighted(c, r)
		return
	}
	n := len(c.Xs)
	xs := withSpare(c.Xs)
	snap := snapFull(xs)
	s := stats.Sample{Xs: xs}
	if n == 0 {
		// NaN whatever the Sorted flag says, weighted or not, for every q; IQR likewise
		for _, e := range []stats.Sample{s, {Xs: xs, Sorted: true}, {Xs: xs, Weights: []float64{}}, {Xs: xs, Weights: []float64{}, Sorted: true}, {Sorted: true}} {
			for _, q := range []float64{-1, 0, 0.25, 0.5, 1, 2} {
				if v := e.Quantile(q); !math.IsNaN(v) {
					r.Fail("empty", "Quantile(%v) of an empty sample (Sorted=%v, weights=%v) = %v, want NaN", q, e.Sorted, e.Weights != nil, v)
				}
				r.Trans(1)
			}
			if v := e.IQR(); !math.IsNaN(v) {
				r.Fail("empty", "IQR of an empty sample (Sorted=%v) = %v, want NaN", e.Sorted, v)
			}
		}
		return
	}
	sorted := append([]float64{}, c.Xs...)
	sort.Float64s(sorted)
	ss := stats.Sample{Xs: append([]float64{}, sorted...), Sorted: true}
	ssNoFlag := stats.Sample{Xs: ss.Xs}
	lo, hi := sorted[0], sorted[n-1]
	if hi > lo {
		r.NT()
	}
	maxAbs := math.Max(math.Abs(lo), math.Abs(hi))
	tol := 4 * ref.Eps * float64(n+1) * ((hi - lo) + maxAbs)
	slack := 2 * ref.Eps * maxAbs
	prev := math.Inf(-1)
	for qi, q := range c10Qs(n) {
		// history: queries on other samples (larger, unsorted; and smaller) in between must
		// leave no trace
		if qi%3 == 0 {
			c10Other.Quantile(0.37)
			c10Small.Quantile(0.6)
		}
		got := s.Quantile(q)
		r.Trans(1)
		r.OutcomeF(got)
		want := c10R8(sorted, q)
		if !r.Err("R8", ref.AbsDiff(got, want), tol) {
			r.Fail("R8", "xs=%v: Quantile(%v)=%v, exact R8 estimate %v", trunc(c.Xs), q, got, ref.F(want))
		}
		if got < lo-slack || got > hi+slack {
			r.Fail("range", "Quantile(%v)=%v outside [%v,%v]", q, got, lo, hi)
		}
		// Between two EQUAL order statistics (a tie, a constant sample) the estimate is that
		// value itself: there is nothing to interpolate and no rounding to allow for.
		{
			wf, exact := want.Float64()
			if exact && q > 0 && q < 1 {
				h := (float64(n)+1.0/3)*q + 1.0/3
				k := int(math.Floor(h))
				if k >= 1 && k < n && sorted[k-1] == sorted[k] && math.Abs(h-math.Round(h)) > 1e-9 && got != wf {
					r.Fail("tie-exact", "xs=%v: Quantile(%v)=%v, but both neighbouring order statistics equal %v", trunc(c.Xs), q, got, wf)
				}
			}
		}
		if got < prev-slack {
			r.Fail("monotone", "xs=%v: Quantile drops from %v to %v at q=%v", trunc(c.Xs), prev, got, q)
		}
		prev = got
		if q <= 0 && got != lo {
			r.Fail("q<=0", "Quantile(%v)=%v want min %v", q, got, lo)
		}
		if q >= 1 && got != hi {
			r.Fail("q>=1", "Quantile(%v)=%v want max %v", q, got, hi)
		}
		// order and flag independence, bit for bit
		if g2 := ss.Quantile(q); !sameF(g2, got) {
			r.Fail("order-independence", "xs=%v: Quantile(%v)=%v but on the sorted sample marked Sorted %v", trunc(c.Xs), q, got, g2)
		}
		if g3 := ssNoFlag.Quantile(q); !sameF(g3, got) {
			r.Fail("flag-independence", "sorted data: Quantile(%v) = %v without the flag, %v with it", q, g3, got)
		}
	}
	if iqr, want := s.IQR(), s.Quantile(0.75)-s.Quantile(0.25); !sameF(iqr, want) {
		r.Fail("IQR", "IQR()=%v, Quantile(0.75)-Quantile(0.25)=%v", iqr, want)
	}
	if iqr, want := ss.IQR(), s.IQR(); !sameF(iqr, want) {
		r.Fail("IQR-sorted", "IQR differs between sorted+flag (%v) and original order (%v)", iqr, want)
	}
	if !snap.same(xs) || s.Sorted {
		r.Fail("modified", "Quantile/IQR modified the sample: %v", xs)
	}
	// history: the caller rewrites the values in place (same backing array, same
	// length); the next query answers for the data now in the slice
	for round := 0; round < 2; round++ {
		for i := range xs {
			xs[i] = 3*c.Xs[(i+1+round)%n] - float64(i%3) + float64(round)
		}
		now := append([]float64{}, xs...)
		sort.Float64s(now)
		lo2, hi2 := now[0], now[n-1]
		tol2 := 4 * ref.Eps * float64(n+1) * ((hi2 - lo2) + math.Max(math.Abs(lo2), math.Abs(hi2)))
		for _, q := range []float64{0, 0.1, 0.25, 0.5, 0.75, 1} {
			got := s.Quantile(q)
			r.Trans(1)
			if want := c10R8(now, q); !r.Err("R8", ref.AbsDiff(got, want), tol2) {
				r.Fail("rewritten-in-place", "xs=%v was queried, then rewritten in place to %v: Quantile(%v)=%v, exact R8 estimate %v", trunc(c.Xs), trunc(xs), q, got, ref.F(want))
				return
			}
		}
	}
}

func c10Weighted(c *C10Case, r *core.Rec) {
	n := len(c.Xs)
	xs, ws := withSpare(c.Xs), withSpare(c.Weights)
	sx, sw := snapFull(xs), snapFull(ws)
	s := stats.Sample{Xs: xs, Weights: ws}
	// sorted pairs, grouped by x
	type grp struct {
		x float64
		w *big.Rat
	}
	idx := make([]int, n)
	for i := range idx {
		idx[i] = i
	}
	sort.Slice(idx, func(a, b int) bool { return c.Xs[idx[a]] < c.Xs[idx[b]] })
	var groups []grp
	W := new(big.Rat)
	for _, i := range idx {
		w := ref.R(c.Weights[i])
		W.Add(W, w)
		if len(groups) > 0 && groups[len(groups)-1].x == c.Xs[i] {
			groups[len(groups)-1].w.Add(groups[len(groups)-1].w, w)
		} else {
			groups = append(groups, grp{c.Xs[i], new(big.Rat).Set(w)})
		}
	}
	if len(groups) >= 2 {
		r.NT()
	}
	Wf := ref.F(W)
	// q lattice: every cumulative weight (also per element, before grouping) exactly and +-1ulp
	qs := []float64{-0.5, 0, 1e-9, 0.1, 0.25, 0.5, 0.75, 0.9, 1 - 1e-9, 1, 1.5}
	cum := new(big.Rat)
	for _, i := range idx {
		cum.Add(cum, ref.R(c.Weights[i]))
		q := ref.F(ref.Quo(cum, W))
		qs = append(qs, q, math.Nextafter(q, 0), math.Nextafter(q, 2))
	}
	sort.Float64s(qs)
	first := func(target *big.Rat) float64 {
		cm := new(big.Rat)
		for _, g := range groups {
			cm.Add(cm, g.w)
			if cm.Cmp(target) > 0 {
				return g.x
			}
		}
		return groups[len(groups)-1].x
	}
	prev := math.Inf(-1)
	for qi, q := range qs {
		if qi%3 == 0 {
			c10OtherW.Quantile(0.37)
			c10Other.Quantile(0.71)
		}
		got := s.Quantile(q)
		r.Trans(1)
		r.OutcomeF(got)
		var acc []float64
		switch {
		case q <= 0:
			acc = []float64{groups[0].x}
		case q >= 1:
			acc = []float64{groups[len(groups)-1].x}
		default:
			t := ref.Mul(ref.R(q), W)
			acc = []float64{first(t)}
			// When q*W coincides exactly with a cumulative weight the float computation
			// W*q is exact too and "exceeds" is unambiguous. Only when q*W merely lies
			// within rounding distance of a cumulative weight may the float product
			// fall on either side.
			exactHit := false
			cm := new(big.Rat)
			for _, g := range groups {
				cm.Add(cm, g.w)
				if cm.Cmp(t) == 0 {
					exactHit = true
				}
			}
			if !exactHit {
				d := ref.R(1e-12 * Wf)
				acc = append(acc, first(ref.Sub(t, d)), first(ref.Add(t, d)))
			}
		}
		ok := false
		for _, a := range acc {
			if got == a {
				ok = true
			}
		}
		if !ok {
			r.Fail("weighted", "xs=%v weights=%v: Quantile(%v)=%v, first value whose cumulative weight exceeds q*W is %v", trunc(c.Xs), trunc(c.Weights), q, got, acc[0])
		}
		if got < prev {
			r.Fail("weighted-monotone", "xs=%v weights=%v: Quantile drops from %v to %v at q=%v", trunc(c.Xs), trunc(c.Weights), prev, got, q)
		}
		prev = got
	}
	if iqr, want := s.IQR(), s.Quantile(0.75)-s.Quantile(0.25); !sameF(iqr, want) {
		r.Fail("weighted-IQR", "xs=%v weights=%v: IQR()=%v, Quantile(0.75)-Quantile(0.25)=%v", trunc(c.Xs), trunc(c.Weights), iqr, want)
	}
	if !sx.same(xs) || !sw.same(ws) || s.Sorted {
		r.Fail("modified", "weighted Quantile modified the sample")
	}
	// history: values and weights rewritten in place (reversed values, rotated weights)
	if n >= 2 {
		for i := range xs {
			xs[i] = c.Xs[n-1-i] + float64(i%2)
			ws[i] = c.Weights[(i+1)%n]
		}
		fresh := stats.Sample{Xs: append([]float64{}, xs...), Weights: append([]float64{}, ws...)}
		for _, q := range []float64{0, 0.2, 0.5, 0.8, 1} {
			if got, want := s.Quantile(q), fresh.Quantile(q); !sameF(got, want) {
				r.Fail("rewritten-in-place", "weighted sample rewritten in place to xs=%v weights=%v: Quantile(%v)=%v, a fresh Sample with the same data gives %v", trunc(xs), trunc(ws), q, got, want)
				return
			}
			r.Trans(2)
		}
	}
}

var c10Alpha = []float64{-1, 0, 2, 7}

// c10Other / c10Small are unrelated unsorted samples queried between the queries under test.
var c10Other, c10Small = func() (stats.Sample, stats.Sample) {
	xs := make([]float64, 257)
	for i := range xs {
		xs[i] = 1000 + float64((i*101)%257)
	}
	return stats.Sample{Xs: xs}, stats.Sample{Xs: []float64{-55, -77}}
}()

var c10OtherW = func() stats.Sample {
	xs, ws := make([]float64, 131), make([]float64, 131)
	for i := range xs {
		xs[i], ws[i] = 500-float64((i*37)%131), float64(i%4+1)
	}
	return stats.Sample{Xs: xs, Weights: ws}
}()

func c10Run(c *core.Ctx) {
	r := c.R
	maxLen, maxWLen := 6, 4
	if c.Thorough() {
		maxLen, maxWLen = 7, 5
	}
	cs := &C10Case{}
	run := func(xs, ws []float64) {
		cs.Xs, cs.Weights = xs, ws
		r.Case("quantile", cs)
		r.Try(func() { c10Check(cs, r) })
	}
	if c.First() {
		run(nil, nil)
		run([]float64{}, nil)
	}
	wsets := [][]float64{{1, 2, 3}, {0.5, 1.25, 2}}
	for L := 1; L <= maxLen; L++ {
		enum.Sequences(L, len(c10Alpha), func(s []int) {
			if !c.Mine() {
				return
			}
			xs := make([]float64, L)
			for i, k := range s {
				xs[i] = c10Alpha[k]
			}
			run(xs, nil)
			if L <= maxWLen {
				for _, wset := range wsets {
					enum.Sequences(L, len(wset), func(wi []int) {
						ws := make([]float64, L)
						for i, k := range wi {
							ws[i] = wset[k]
						}
						run(xs, ws)
					})
				}
			}
		})
	}
	// values that are not dyadic (0.1, 0.3, 123.456), with ties: every sequence of length 1..5
	nd := []float64{0.1, 0.3, 123.456}
	for L := 1; L <= 5; L++ {
		enum.Sequences(L, len(nd), func(s []int) {
			if !c.Mine() {
				return
			}
			xs := make([]float64, L)
			for i, k := range s {
				xs[i] = nd[k]
			}
			run(xs, nil)
		})
	}
	r.Bound("sequences", fmt.Sprintf("every sequence of length 1..%d over {-1,0,2,7}, of length 1..5 over {0.1,0.3,123.456}; weighted for length<=%d", maxLen, maxWLen))
	for _, n := range []int{7, 8, 9, 10, 11, 12, 50, 199, 200} {
		for pat := 0; pat < 4; pat++ {
			for _, off := range []float64{0, 1e6} {
				if !c.Mine() {
					continue
				}
				xs := make([]float64, n)
				ws := make([]float64, n)
				for i := range xs {
					switch pat {
					case 0:
						xs[i] = off + float64((i*37)%n)/8
					case 1:
						xs[i] = off + float64(i%3)
					case 2:
						xs[i] = off + float64((i*i)%17)/4
					case 3:
						xs[i] = off - float64(i)
					}
					ws[i] = []float64{1, 2, 3, 0.5, 1.25}[(i*3)%5]
				}
				run(xs, nil)
				run(xs, ws)
			}
		}
	}
	r.Bound("large", "n in {7..12,50,199,200} x 4 patterns x 2 offsets, unweighted and weighted")
}
