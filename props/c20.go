package props

import (
	"bytes"
	"context"
	"encoding/json"
	"fmt"
	"hash/fnv"
	"os"
	"os/exec"
	"path/filepath"
	"sort"
	"strconv"
	"strings"
	"sync"
	"time"

	"verif/c20/alpha"
	"verif/c20/gen"
	"verif/mc/core"
)

// C20 — API calls are pure: inputs untouched, results deterministic, race-free.
//
// The worker orchestrates four passes over one call alphabet (c20/alpha):
// purity (bitwise snapshots), history independence (all call sequences against
// fresh-process references + package-state hashing), interleaving exploration
// (cooperative scheduler over an instrumented overlay build, preemption
// bounded) and a separate free-running -race pass.

type C20Case struct {
	Mode     string `json:"mode"`
	Entry    int    `json:"entry,omitempty"`
	Name     string `json:"name,omitempty"`
	Variant  int    `json:"variant,omitempty"`
	Seq      []int  `json:"seq,omitempty"`
	Threads  []int  `json:"threads,omitempty"`
	Schedule []int  `json:"schedule,omitempty"`
}

func init() {
	core.Register(&core.Prop{
		ID:     "C20",
		Title:  "API calls are pure: inputs untouched, results deterministic, race-free",
		Run:    c20Run,
		Serial: true,
		Kinds:  []core.Kind{{Name: "c20", Replay: c20Replay}},
		Rule: "call alphabet: one entry per exported function/method taking a slice, Sample, graph or distribution, on unsorted fixtures with ties. " +
			"(1) every entry x every fixture variant: deep bitwise snapshot of all arguments (to capacity) before/after, 9 repetitions bit-identical; " +
			"(2) every call sequence of length<=depth: each call compared with its result in a fresh process, package-level state of every library package (pointers generated from the current sources) hashed after every sequence; " +
			"(3) cooperative scheduler with a scheduling point before every statement of an instrumented overlay copy of the library: all schedules of 2 (3) goroutines with <=bound preemptions, results compared with the sequential ones, shared-state write monitor at every point; " +
			"(4) separate free-running -race build: 16 goroutines x rounds x the whole alphabet on shared fixtures. A case is one (entry,variant), one call sequence or one thread combination; all are non-trivial.",
		Technique:   "stateless model checking of the implementation: cooperative scheduler over statement-level scheduling points injected into an overlay copy, iterative preemption bounding, shared-state write monitor; exhaustive call-sequence enumeration; separate -race pass",
		HangSeconds: 3000,
		Assumptions: []string{
			"interleavings are explored at statement granularity under sequential consistency; tearing and weak-memory effects are left to the free-running -race pass, which is dynamic detection and not enumeration",
			"'equal arguments' excludes a nil random source; a KDE with Bandwidth 0 is not a read-only input",
			"a write to shared state by a read-only call is reported as a race when the library uses no synchronisation primitive (checked syntactically on the current sources)",
			"map-iteration-order nondeterminism is sampled (9 repetitions), not enumerated",
		},
	})
}

type c20Out struct {
	Evals       int64             `json:"evals"`
	Nontrivial  int64             `json:"nontrivial"`
	States      int64             `json:"states"`
	Transitions int64             `json:"transitions"`
	Validated   int64             `json:"validated"`
	Counters    map[string]int64  `json:"counters"`
	Violations  []c20Viol         `json:"violations"`
	Notes       []string          `json:"notes"`
	Samples     []json.RawMessage `json:"samples"`
	Outcomes    []uint64          `json:"outcomes"`
	PkgStates   []uint64          `json:"pkg_states"`
}

type c20Viol struct {
	Sig  string          `json:"sig"`
	Msg  string          `json:"msg"`
	Case json.RawMessage `json:"case"`
}

const c20Variants = 12

type c20Build struct {
	dir        string
	h          string // instrumented harness
	race       string
	gen        *gen.Result
	fresh      string
	nEntry     int
	freshVar   string
	syncFree   bool
	stepBudget int64
}

func verifRoot() string {
	if d := os.Getenv("VERIF_DIR"); d != "" {
		return d
	}
	return "/verif"
}

func goCmd(dir string, args ...string) (string, error) {
	cmd := exec.Command("go", args...)
	cmd.Dir = dir
	cmd.Env = append(os.Environ(), "GOFLAGS=-mod=mod", "GOPROXY=off", "GOSUMDB=off", "GOTOOLCHAIN=local")
	b, err := cmd.CombinedOutput()
	return string(b), err
}

// c20Prepare generates the overlay from the current /repo tree, builds the
// instrumented harness and the -race harness, and computes fresh references.
func c20Prepare(withRace bool) (*c20Build, error) {
	root := verifRoot()
	// The build is cached under a key derived from the current /repo sources and the
	// harness sources, so that the driver's replay of a violation (5 fresh processes)
	// does not rebuild an identical overlay each time. A changed tree gets a new key.
	key := c20TreeKey(root)
	dir := filepath.Join(root, ".work", "c20cache-"+key)
	b := &c20Build{dir: dir, nEntry: len(alpha.Entries)}
	b.h = filepath.Join(dir, "c20h")
	b.race = filepath.Join(dir, "c20race")
	b.fresh = filepath.Join(dir, "fresh.json")
	b.freshVar = filepath.Join(dir, "freshvar.json")
	if _, err := os.Stat(filepath.Join(dir, "ok")); err == nil {
		g, err := gen.Generate("/repo", filepath.Join(dir, "gen"))
		if err == nil {
			b.gen = g
			if _, err := os.Stat(b.race); err == nil || !withRace {
				return b, nil
			}
		}
	}
	// remove stale caches of other trees
	if old, _ := filepath.Glob(filepath.Join(root, ".work", "c20cache-*")); len(old) > 0 {
		for _, o := range old {
			os.RemoveAll(o)
		}
	}
	if err := os.MkdirAll(dir, 0o755); err != nil {
		return nil, err
	}
	g, err := gen.Generate("/repo", filepath.Join(dir, "gen"))
	if err != nil {
		return nil, fmt.Errorf("instrumenter: %v", err)
	}
	b.gen = g
	if out, err := goCmd(root, "build", "-tags", "verif", "-overlay", g.Overlay, "-o", b.h, "./c20/h"); err != nil {
		return nil, fmt.Errorf("building the instrumented harness failed:\n%s", out)
	}
	if out, err := goCmd(root, "build", "-race", "-o", b.race, "./c20/race"); err != nil {
		return nil, fmt.Errorf("building the -race harness failed:\n%s", out)
	}
	// fresh-process reference result of every entry
	fresh := make([]string, b.nEntry)
	var wg sync.WaitGroup
	sem := make(chan struct{}, 16)
	var ferr error
	var mu sync.Mutex
	for i := 0; i < b.nEntry; i++ {
		wg.Add(1)
		go func(i int) {
			defer wg.Done()
			sem <- struct{}{}
			defer func() { <-sem }()
			out, err := exec.Command(b.h, "fresh", strconv.Itoa(i)).Output()
			if err != nil {
				mu.Lock()
				ferr = fmt.Errorf("fresh %d: %v", i, err)
				mu.Unlock()
				return
			}
			fresh[i] = strings.TrimSpace(string(out))
		}(i)
	}
	wg.Wait()
	if ferr != nil {
		return nil, ferr
	}
	fb, _ := json.Marshal(fresh)
	os.WriteFile(b.fresh, fb, 0o644)
	// fresh-process references on several fixture variants (for the varhist pass)
	fv := make([][]string, b.nEntry)
	for i := range fv {
		fv[i] = make([]string, c20Variants)
	}
	for i := 0; i < b.nEntry; i++ {
		for v := 0; v < c20Variants; v++ {
			wg.Add(1)
			go func(i, v int) {
				defer wg.Done()
				sem <- struct{}{}
				defer func() { <-sem }()
				out, err := exec.Command(b.h, "fresh", strconv.Itoa(i), strconv.Itoa(v)).Output()
				if err != nil {
					mu.Lock()
					ferr = fmt.Errorf("fresh %d/%d: %v", i, v, err)
					mu.Unlock()
					return
				}
				fv[i][v] = strings.TrimSpace(string(out))
			}(i, v)
		}
	}
	wg.Wait()
	if ferr != nil {
		return nil, ferr
	}
	fvb, _ := json.Marshal(fv)
	os.WriteFile(b.freshVar, fvb, 0o644)
	os.WriteFile(filepath.Join(dir, "ok"), []byte("ok"), 0o644)
	return b, nil
}

// c20TreeKey hashes every non-test .go file under /repo and the harness sources.
func c20TreeKey(root string) string {
	h := fnv.New64a()
	add := func(dir string) {
		filepath.Walk(dir, func(p string, info os.FileInfo, err error) error {
			if err != nil || info.IsDir() {
				if info != nil && info.IsDir() && strings.HasPrefix(info.Name(), ".") && p != dir {
					return filepath.SkipDir
				}
				return nil
			}
			if strings.HasSuffix(p, ".go") || strings.HasSuffix(p, "go.mod") {
				b, _ := os.ReadFile(p)
				h.Write([]byte(p))
				h.Write(b)
			}
			return nil
		})
	}
	add("/repo")
	add(filepath.Join(root, "c20"))
	return fmt.Sprintf("%016x", h.Sum64())
}

func (b *c20Build) cleanup() {} // the cache is removed when the tree changes (see c20Prepare)

// runShards runs `h <args with %s %n>` over n shards in parallel and merges.
func (b *c20Build) runShards(r *core.Rec, n int, mk func(shard int) []string) {
	t0 := time.Now()
	defer func() { r.Note(fmt.Sprintf("phase %v: %.1fs", mk(0)[:1], time.Since(t0).Seconds())) }()
	var wg sync.WaitGroup
	sem := make(chan struct{}, 16)
	var mu sync.Mutex
	for s := 0; s < n; s++ {
		wg.Add(1)
		go func(s int) {
			defer wg.Done()
			sem <- struct{}{}
			defer func() { <-sem }()
			cmd := exec.Command(b.h, mk(s)...)
			sf := "1"
			if !b.syncFree {
				sf = "0"
			}
			// the cooperative scheduler wants one P; the sequential passes get several, so that
			// goroutines the library itself might start really run in parallel
			procs := "4"
			if args := mk(s); len(args) > 0 && args[0] == "sched" {
				procs = "1"
			}
			cmd.Env = append(os.Environ(), "C20_SYNCFREE="+sf, "C20_FRESH="+b.fresh, "C20_FRESHVAR="+b.freshVar, "GOMAXPROCS="+procs, "C20_STEP_BUDGET="+strconv.FormatInt(b.stepBudget, 10))
			var stderr bytes.Buffer
			cmd.Stderr = &beatWriter{buf: &stderr, r: r}
			outb, err := cmd.Output()
			mu.Lock()
			defer mu.Unlock()
			var o c20Out
			if jerr := json.Unmarshal(bytes.TrimSpace(lastLine(outb)), &o); jerr != nil || err != nil {
				// the harness process died: a fatal error inside library code (e.g. concurrent map writes are not
				// possible here since the scheduler is cooperative) or a harness bug; never silently ignored
				r.Incomplete = append(r.Incomplete, fmt.Sprintf("harness shard %v failed: %v %s", mk(s), err, firstLines(stderr.String(), 6)))
				return
			}
			c20Fold(r, &o)
		}(s)
	}
	wg.Wait()
}

// beatWriter collects a harness process's stderr; its "HB" heart-beat lines count
// as progress for the driver's watchdog (the exploration behind them is bounded
// by a step budget) and are not kept.
type beatWriter struct {
	buf *bytes.Buffer
	r   *core.Rec
}

func (w *beatWriter) Write(p []byte) (int, error) {
	for _, line := range bytes.SplitAfter(p, []byte("\n")) {
		if bytes.Equal(bytes.TrimSpace(line), []byte("HB")) {
			w.r.Progress.Add(1)
			continue
		}
		w.buf.Write(line)
	}
	return len(p), nil
}

func lastLine(b []byte) []byte {
	b = bytes.TrimSpace(b)
	if i := bytes.LastIndexByte(b, '\n'); i >= 0 {
		return b[i+1:]
	}
	return b
}

func firstLines(s string, n int) string {
	ls := strings.Split(s, "\n")
	if len(ls) > n {
		ls = ls[:n]
	}
	return strings.Join(ls, " | ")
}

func c20Fold(r *core.Rec, o *c20Out) {
	r.Bulk(o.Evals, o.Nontrivial)
	r.State(o.States)
	r.Trans(o.Transitions)
	r.Valid(o.Validated)
	for k, v := range o.Counters {
		r.Count(k, v)
	}
	for _, n := range o.Notes {
		r.Note(n)
	}
	for _, s := range o.Samples {
		r.AddSample("c20", s)
	}
	for _, h := range o.Outcomes {
		r.Outcome(h)
	}
	for _, v := range o.Violations {
		r.FailRaw("c20", v.Sig, v.Msg, v.Case)
	}
	c20mu.Lock()
	for _, h := range o.PkgStates {
		c20PkgStates[h] = true
	}
	c20mu.Unlock()
}

var (
	c20mu        sync.Mutex
	c20PkgStates = map[uint64]bool{}
)

func c20Run(c *core.Ctx) {
	r := c.R
	start := time.Now()
	b, err := c20Prepare(true)
	if err != nil {
		// The current tree (or the harness) does not build: no verdict.
		fmt.Fprintln(os.Stderr, "C20 setup failed:", err)
		os.Exit(4)
	}
	defer b.cleanup()
	g := b.gen
	r.Count("scheduling_points_injected", int64(g.Points))
	r.Count("library_files_instrumented", int64(g.Files))
	nvars := 0
	for _, vs := range g.StateVars {
		nvars += len(vs)
	}
	r.Count("package_level_variables_monitored", int64(nvars))
	r.Note(fmt.Sprintf("instrumented %d files of packages %v with %d scheduling points; build %.0fs", g.Files, g.Packages, g.Points, time.Since(start).Seconds()))
	if len(g.TypeErrors) > 0 {
		r.Incomplete = append(r.Incomplete, "type-checking the library for the map-order seam reported: "+strings.Join(g.TypeErrors, "; "))
	}
	if len(g.MapRangesFree) > 0 {
		r.Note("range-over-map sites NOT under harness control (iteration order stays runtime-randomised; covered by repetition only): " + strings.Join(g.MapRangesFree, ", "))
	}
	if len(g.MapRanges) > 0 {
		r.Note("range-over-map sites put under harness control (found by type-checking; iteration order = verifhook.MapMode, every call that reaches one is re-run under 6 orders, all 3! orders for maps of <= 3 keys): " + strings.Join(g.MapRanges, ", "))
	}
	syncFree := len(g.SyncUses) == 0
	b.syncFree = syncFree
	schedulable := len(g.Unmodelled) == 0
	if !syncFree {
		r.Note("the library uses synchronisation primitives: " + strings.Join(g.SyncUses, "; "))
		if schedulable {
			r.Note("package sync is replaced by a cooperative shim (Mutex, RWMutex, Once) inside the instrumented copy, so blocking is visible to the scheduler and 'no enabled goroutine' is reported as deadlock; a write to shared state is then no longer by itself a race, and every thread combination that writes shared state is explored")
		} else {
			r.Note("channels/select/go statements are not modelled by the cooperative scheduler: the interleaving pass is skipped and only the -race pass judges concurrency")
		}
	}
	// uncovered exports (reported, never an alarm)
	cov := map[string]bool{}
	for _, n := range alpha.Covered {
		cov[n] = true
	}
	var unc []string
	for _, e := range g.Exported {
		name := e[strings.IndexByte(e, ':')+1:]
		if !cov[name] {
			unc = append(unc, e)
		}
	}
	sort.Strings(unc)
	r.Note(fmt.Sprintf("exported functions/methods not in the call alphabet (scalar-only, constructors, in-place operations, trivial accessors): %d of %d: %s", len(unc), len(g.Exported), strings.Join(unc, " ")))

	variants, depth, bound := 40, 2, 1
	b.stepBudget = 1e8
	if c.Thorough() {
		variants, depth, bound = 125, 3, 2
		b.stepBudget = 5e8
	}
	// (1) purity
	b.runShards(r, 16, func(s int) []string { return []string{"purity", strconv.Itoa(s), "16", strconv.Itoa(variants)} })
	r.Bound("purity", fmt.Sprintf("%d entries x %d fixture variants x 9 repetitions", b.nEntry, variants))
	// (2) histories
	b.runShards(r, 16, func(s int) []string { return []string{"history", strconv.Itoa(depth), strconv.Itoa(s), "16"} })
	r.Bound("histories", fmt.Sprintf("all %d^%d call sequences", b.nEntry, depth))
	b.runShards(r, 16, func(s int) []string { return []string{"varhist", strconv.Itoa(s), "16"} })
	r.Bound("variant_histories", fmt.Sprintf("every entry on every ordered pair of %d fixture variants (sizes and orders differ), second call against its fresh-process result", c20Variants))
	r.Count("distinct_package_states_reached", int64(len(c20PkgStates)))
	r.State(int64(len(c20PkgStates)))
	if len(c20PkgStates) == 1 {
		r.Note("every call of every history maps the initial package state to itself: the reachable package-state space is a single state, so no history can influence a later call")
	}
	// (3) schedules
	if schedulable {
		b.runShards(r, 32, func(s int) []string { return []string{"sched", strconv.Itoa(bound), "2", strconv.Itoa(s), "32", "ff"} })
		r.Bound("schedules_f||f", fmt.Sprintf("every entry against itself on shared fixtures: all schedules with <=%d preemptions (combinations that exhaust the per-combination step budget are listed in notes as not completed)", bound))
		if c.Thorough() {
			b.runShards(r, 32, func(s int) []string { return []string{"sched", "1", "2", strconv.Itoa(s), "32", "allx"} })
			r.Bound("schedules_all_pairs", "every pair of different entries: all schedules with <=1 preemption")
			b.runShards(r, 32, func(s int) []string { return []string{"sched", "1", "3", strconv.Itoa(s), "32", "ff"} })
			r.Bound("schedules_3_threads", "f||f||f for every entry: all schedules with <=1 preemption")
		} else if len(r.Viol) > 0 {
			r.Note("violations were already found by the earlier passes: the all-pairs monitor pass is skipped in the quick tier")
		} else {
			b.runShards(r, 32, func(s int) []string { return []string{"sched", "1", "2", strconv.Itoa(s), "32", "all"} })
			r.Bound("schedules_all_pairs", "every pair of different entries: write monitor at every scheduling point of both sequential orders; pairs without shared writes discharged by commutativity, others explored with <=1 preemption")
		}
	}
	if n := r.Counters["capped"]; n > 0 {
		r.Incomplete = append(r.Incomplete, fmt.Sprintf("%d thread combinations exhausted the step budget before their preemption bound was completed (listed in notes); everything else was explored completely", n))
	}
	// (4) free-running -race pass
	rounds := 50
	if c.Thorough() {
		rounds = 200
	}
	c20Race(b, r, rounds)
	r.Bound("race_pass", fmt.Sprintf("16 goroutines x %d rounds x %d entries under the race detector (dynamic detection, not enumeration)", rounds, b.nEntry))
}

func c20Race(b *c20Build, r *core.Rec, rounds int) {
	limit := 10 * time.Minute
	if v, err := strconv.Atoi(os.Getenv("C20_RACE_TIMEOUT_S")); err == nil && v > 0 {
		limit = time.Duration(v) * time.Second
	}
	ctx, cancel := context.WithTimeout(context.Background(), limit)
	defer cancel()
	cmd := exec.CommandContext(ctx, b.race, "16", strconv.Itoa(rounds))
	cmd.Env = append(os.Environ(), "GORACE=halt_on_error=1 exitcode=66", "GOMAXPROCS=16")
	var stdout, stderr bytes.Buffer
	cmd.Stdout, cmd.Stderr = &stdout, &stderr
	err := cmd.Run()
	if ctx.Err() != nil {
		// Normally this pass takes seconds. A free-running harness that does not finish in
		// 10 minutes is most likely deadlocked, but a wall-clock limit is not an oracle:
		// no verdict from this pass (the scheduler pass reports deadlocks deterministically).
		r.Incomplete = append(r.Incomplete, "the free-running -race pass did not finish within 10 minutes (deadlock or livelock between concurrent calls is likely); no verdict from this pass")
		return
	}
	raw, _ := json.Marshal(C20Case{Mode: "race"})
	r.Bulk(1, 1)
	se := stderr.String()
	if strings.Contains(se, "WARNING: DATA RACE") {
		i := strings.Index(se, "WARNING: DATA RACE")
		rep := se[i:]
		if j := strings.Index(rep, "=================="); j > 0 {
			rep = rep[:j]
		}
		r.FailRaw("c20", "race:"+raceSite(rep), "the race detector reports a data race between concurrent calls on shared read-only inputs:\n"+rep, raw)
		return
	}
	for _, l := range strings.Split(stdout.String(), "\n") {
		if strings.HasPrefix(l, "MISMATCH") {
			r.FailRaw("c20", "race-mismatch", "free-running concurrent calls returned results different from the sequential ones: "+l, raw)
			return
		}
		if strings.HasPrefix(l, "CALLS ") {
			n, _ := strconv.ParseInt(strings.TrimPrefix(l, "CALLS "), 10, 64)
			r.Count("race_pass_calls", n)
		}
	}
	if err != nil {
		if strings.Contains(se, "fatal error") || strings.Contains(se, "panic:") {
			r.FailRaw("c20", "race-crash", "the free-running concurrent harness crashed: "+firstLines(se, 8), raw)
			return
		}
		r.Incomplete = append(r.Incomplete, "race pass failed to run: "+err.Error()+" "+firstLines(se, 4))
	}
}

// raceSite extracts the first library frame of a race report.
func raceSite(rep string) string {
	for _, l := range strings.Split(rep, "\n") {
		l = strings.TrimSpace(l)
		if i := strings.Index(l, "/repo/"); i >= 0 {
			s := l[i+len("/repo/"):]
			if j := strings.IndexAny(s, " +"); j >= 0 {
				s = s[:j]
			}
			return s
		}
	}
	return "unknown"
}

// c20Replay rebuilds the instrumented harness from the current tree and
// re-runs one recorded case.
func c20Replay(raw json.RawMessage, r *core.Rec) error {
	var cs C20Case
	if err := json.Unmarshal(raw, &cs); err != nil {
		return err
	}
	r.Case("c20", &cs)
	b, err := c20Prepare(cs.Mode == "race")
	if err != nil {
		return err
	}
	defer b.cleanup()
	if cs.Mode == "race" {
		c20Race(b, r, 100)
		return nil
	}
	cmd := exec.Command(b.h, "replay", string(raw))
	sf := "1"
	if len(b.gen.SyncUses) != 0 {
		sf = "0"
	}
	cmd.Env = append(os.Environ(), "C20_FRESH="+b.fresh, "C20_SYNCFREE="+sf)
	outb, err := cmd.Output()
	var o c20Out
	if jerr := json.Unmarshal(lastLine(outb), &o); jerr != nil {
		return fmt.Errorf("replay harness: %v %v", err, jerr)
	}
	c20Fold(r, &o)
	return nil
}
