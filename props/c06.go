package props

import (
	"fmt"
	"math"
	"math/big"

	"github.com/aclements/go-moremath/stats"

	"verif/mc/core"
	"verif/mc/ref"
)

// C06 — Binomial and hypergeometric PMF/CDF equal the exact rational probabilities.

type C06H struct {
	N     int `json:"N"`
	K     int `json:"K"`
	Draws int `json:"draws"`
}

type C06B struct {
	N int     `json:"N"`
	P float64 `json:"P"`
}

func init() {
	core.Register(&core.Prop{
		ID:    "C06",
		Title: "Binomial and hypergeometric PMF/CDF equal the exact rational probabilities",
		Run:   c06Run,
		Kinds: []core.Kind{core.ReplayOf("hyperg", c06Hyper), core.ReplayOf("binom", c06Binom)},
		Rule: "every hypergeometric (N,K,Draws) with 2<=N<=bound and every binomial N<=bound on P = i/200 (i=0..200), 10^(-j/4) and 1-10^(-j/4) (j=1..48), six non-round values and values within 1e-12 of 0 and 1, and the complete family N in {100,250,500,999,1000}; " +
			"for each, every integer k from -2 to N+2 and k+{1e-10, 0.5, 1-1e-10, 1-2^-40}; oracle = exact big.Rat (hypergeometric) / 600-bit big.Float on the exact value of the float P (binomial, cross-checked against big.Rat for N<=12). " +
			"Non-trivial: the support has at least 2 points.",
		Technique:   "bounded-exhaustive parameter and argument enumeration of the real distributions against exact rational / 600-bit references",
		Assumptions: []string{"tolerance 1e-10 absolute (statement)", "Mean/Variance compared with the exact moments to 8 ulp", "larger N covered by a complete family instead of random draws"},
	})
}

const c06Tol = 1e-10

func c06Hyper(c *C06H, r *core.Rec) {
	d := stats.HypergeometicDist{N: c.N, K: c.K, Draws: c.Draws}
	lo := c.Draws + c.K - c.N
	if lo < 0 {
		lo = 0
	}
	hi := c.Draws
	if c.K < hi {
		hi = c.K
	}
	if hi > lo {
		r.NT()
	}
	bl, bh := d.Bounds()
	if bl != float64(lo) || bh != float64(hi) {
		r.Fail("h-Bounds", "Bounds()=(%v,%v), support is [%d,%d]", bl, bh, lo, hi)
	}
	if d.Step() != 1 {
		r.Fail("h-Step", "Step()=%v", d.Step())
	}
	den := new(big.Int).Binomial(int64(c.N), int64(c.Draws))
	cum := new(big.Rat)
	m1, m2 := new(big.Rat), new(big.Rat)
	a, b := new(big.Int), new(big.Int)
	calls := int64(0)
	for k := -2; k <= c.N+2; k++ {
		pm := new(big.Rat)
		if k >= lo && k <= hi {
			a.Binomial(int64(c.K), int64(k))
			b.Binomial(int64(c.N-c.K), int64(c.Draws-k))
			pm.SetFrac(new(big.Int).Mul(a, b), den)
		}
		cum.Add(cum, pm)
		kk := ref.RI(int64(k))
		m1.Add(m1, ref.Mul(kk, pm))
		m2.Add(m2, ref.Mul(ref.Mul(kk, kk), pm))
		wantP, wantC := ref.F(pm), ref.F(cum)
		for _, off := range []float64{0, 1e-10, 0.5, 1 - 1e-10, 1 - 0x1p-40} { // CDF and PMF are constant on [k, k+1)
			x := float64(k) + off
			gp, gc := d.PMF(x), d.CDF(x)
			calls += 2
			r.OutcomeF(gp, gc)
			if !r.Err("h-PMF", math.Abs(gp-wantP), c06Tol) {
				r.Fail("h-PMF", "Hyperg{%d,%d,%d}.PMF(%v)=%v, exact %v", c.N, c.K, c.Draws, x, gp, wantP)
			}
			if (k < lo || k > hi) && gp != 0 {
				r.Fail("h-PMF-support", "PMF(%v)=%v outside the support [%d,%d]", x, gp, lo, hi)
			}
			if !r.Err("h-CDF", math.Abs(gc-wantC), c06Tol) {
				r.Fail("h-CDF", "Hyperg{%d,%d,%d}.CDF(%v)=%v, exact %v", c.N, c.K, c.Draws, x, gc, wantC)
			}
			if k < lo && gc != 0 {
				r.Fail("h-CDF-below", "CDF(%v)=%v below the support", x, gc)
			}
			if k >= hi && gc != 1 {
				r.Fail("h-CDF-top", "CDF(%v)=%v at/above the top of the support %d", x, gc, hi)
			}
		}
	}
	r.Trans(calls)
	if cum.Cmp(ref.RI(1)) != 0 {
		panic("reference hypergeometric masses do not sum to 1")
	}
	variance := ref.Sub(m2, ref.Mul(m1, m1))
	if !r.Err("h-Mean", ref.AbsDiff(d.Mean(), m1), 8*ref.Eps*math.Abs(ref.F(m1))) {
		r.Fail("h-Mean", "Mean()=%v, first moment %v", d.Mean(), ref.F(m1))
	}
	if !r.Err("h-Variance", ref.AbsDiff(d.Variance(), variance), 8*ref.Eps*math.Abs(ref.F(variance))) {
		r.Fail("h-Variance", "Variance()=%v, second central moment %v", d.Variance(), ref.F(variance))
	}
}

const c06Prec = 600

func c06Binom(c *C06B, r *core.Rec) {
	d := stats.BinomialDist{N: c.N, P: c.P}
	if c.N >= 1 && c.P > 0 && c.P < 1 {
		r.NT()
	}
	bl, bh := d.Bounds()
	if bl != 0 || bh != float64(c.N) {
		r.Fail("b-Bounds", "Bounds()=(%v,%v), want (0,%d)", bl, bh, c.N)
	}
	if d.Step() != 1 {
		r.Fail("b-Step", "Step()=%v", d.Step())
	}
	nf := func() *big.Float { return new(big.Float).SetPrec(c06Prec) }
	p := nf().SetFloat64(c.P)
	q := nf().Sub(nf().SetInt64(1), p)
	// powers
	pp := make([]*big.Float, c.N+1)
	qp := make([]*big.Float, c.N+1)
	pp[0], qp[0] = nf().SetInt64(1), nf().SetInt64(1)
	for i := 1; i <= c.N; i++ {
		pp[i] = nf().Mul(pp[i-1], p)
		qp[i] = nf().Mul(qp[i-1], q)
	}
	cum := nf()
	bin := new(big.Int)
	calls := int64(0)
	useRat := c.N <= 12
	pr := ref.R(c.P)
	qr := ref.Sub(ref.RI(1), pr)
	for k := -2; k <= c.N+2; k++ {
		pm := nf()
		if k >= 0 && k <= c.N {
			bin.Binomial(int64(c.N), int64(k))
			pm.SetInt(bin)
			pm.Mul(pm, pp[k])
			pm.Mul(pm, qp[c.N-k])
			if useRat {
				// model-vs-definition: the 600-bit value equals the exact rational
				ex := new(big.Rat).SetInt(bin)
				for i := 0; i < k; i++ {
					ex.Mul(ex, pr)
				}
				for i := 0; i < c.N-k; i++ {
					ex.Mul(ex, qr)
				}
				pf, _ := pm.Float64()
				if pf != ref.F(ex) {
					panic("binomial big.Float reference disagrees with big.Rat")
				}
				r.Valid(1)
			}
		}
		cum.Add(cum, pm)
		wantP, _ := pm.Float64()
		wantC, _ := cum.Float64()
		for _, off := range []float64{0, 1e-10, 0.5, 1 - 1e-10, 1 - 0x1p-40} { // CDF and PMF are constant on [k, k+1)
			x := float64(k) + off
			gp, gc := d.PMF(x), d.CDF(x)
			calls += 2
			r.OutcomeF(gp, gc)
			if !r.Err("b-PMF", math.Abs(gp-wantP), c06Tol) {
				r.Fail("b-PMF", "Binomial{%d,%v}.PMF(%v)=%v, exact %v", c.N, c.P, x, gp, wantP)
			}
			if (k < 0 || k > c.N) && gp != 0 {
				r.Fail("b-PMF-support", "PMF(%v)=%v outside the support", x, gp)
			}
			if !r.Err("b-CDF", math.Abs(gc-wantC), c06Tol) {
				r.Fail("b-CDF", "Binomial{%d,%v}.CDF(%v)=%v, exact %v", c.N, c.P, x, gc, wantC)
			}
			if k < 0 && gc != 0 {
				r.Fail("b-CDF-below", "CDF(%v)=%v below the support", x, gc)
			}
			if k >= c.N && gc != 1 {
				r.Fail("b-CDF-top", "CDF(%v)=%v at/above N=%d", x, gc, c.N)
			}
		}
	}
	r.Trans(calls)
	mean := ref.Mul(ref.RI(int64(c.N)), pr)
	variance := ref.Mul(mean, qr)
	if !r.Err("b-Mean", ref.AbsDiff(d.Mean(), mean), 8*ref.Eps*ref.F(mean)) {
		r.Fail("b-Mean", "Mean()=%v, exact %v", d.Mean(), ref.F(mean))
	}
	if !r.Err("b-Variance", ref.AbsDiff(d.Variance(), variance), 8*ref.Eps*ref.F(variance)) {
		r.Fail("b-Variance", "Variance()=%v, exact %v", d.Variance(), ref.F(variance))
	}
	na := d.NormalApprox()
	sd := ref.SqrtRat(variance)
	if !r.Err("b-NormalApprox", math.Max(ref.AbsDiff(na.Mu, mean)/math.Max(ref.F(mean), 1e-300), math.Abs(na.Sigma-sd)/math.Max(sd, 1e-300)), 8*ref.Eps) {
		if !(ref.F(mean) == 0 && na.Mu == 0 && sd == 0 && na.Sigma == 0) {
			r.Fail("b-NormalApprox", "NormalApprox()=%+v, want Normal(%v, %v)", na, ref.F(mean), sd)
		}
	}
}

func c06PGrid() []float64 {
	ps := []float64{0, 1, 1e-12, 1 - 1e-12, 0x1p-53, 1 - 0x1p-53, 1e-300, 0.5 + 0x1p-53, 1.0 / 3}
	for i := 1; i < 200; i++ {
		ps = append(ps, float64(i)/200)
	}
	// between and below the percent grid: a geometric ladder towards 0 and towards 1
	// and a few non-round values
	for j := 1; j <= 48; j++ {
		q := math.Pow(10, -float64(j)/4)
		ps = append(ps, q, 1-q)
	}
	ps = append(ps, 0.137, 1.0/7, 1/math.E, 0.0037, 0.99637, math.Sqrt2-1)
	return ps
}

func c06Run(c *core.Ctx) {
	r := c.R
	hN, bN := 40, 70
	big := []int{100, 1000}
	if c.Thorough() {
		hN, bN = 80, 100
		big = []int{100, 250, 500, 999, 1000}
	}
	hc := &C06H{}
	for N := 2; N <= hN; N++ {
		for K := 0; K <= N; K++ {
			if !c.Mine() {
				continue
			}
			for D := 0; D <= N; D++ {
				hc.N, hc.K, hc.Draws = N, K, D
				r.Case("hyperg", hc)
				r.Try(func() { c06Hyper(hc, r) })
			}
		}
	}
	r.Bound("hypergeometric", fmt.Sprintf("2<=N<=%d, every K, Draws, k", hN))
	bc := &C06B{}
	ps := c06PGrid()
	for N := 0; N <= bN; N++ {
		for _, p := range ps {
			if !c.Mine() {
				continue
			}
			bc.N, bc.P = N, p
			r.Case("binom", bc)
			r.Try(func() { c06Binom(bc, r) })
		}
	}
	for _, N := range big {
		for _, p := range ps {
			if !c.Mine() {
				continue
			}
			bc.N, bc.P = N, p
			r.Case("binom", bc)
			r.Try(func() { c06Binom(bc, r) })
		}
	}
	r.Bound("binomial", fmt.Sprintf("N<=%d and N in %v x %d values of P, every k", bN, big, len(ps)))
	// large hypergeometric family (structured): N in {100, 200}, K and Draws on a coarse grid
	for _, N := range big {
		if N > 250 && !c.Thorough() {
			continue
		}
		for _, K := range []int{0, 1, N / 10, N / 2, N - 1, N} {
			for _, D := range []int{0, 1, N / 7, N / 2, N - 1, N} {
				if !c.Mine() {
					continue
				}
				hc.N, hc.K, hc.Draws = N, K, D
				r.Case("hyperg", hc)
				r.Try(func() { c06Hyper(hc, r) })
			}
		}
	}
	// deliberate history (round 10): neighbouring large populations with EVERY Draws, evaluated one after
	// another in one process, so that state kept between distributions (a memo keyed by a packed or
	// truncated (N, Draws), a reused table) meets a colliding successor. 8-bit and 9-bit packing boundaries.
	fam := []int{255, 256, 257, 300, 301}
	if c.Thorough() {
		fam = []int{127, 128, 129, 255, 256, 257, 258, 299, 300, 301, 302, 511, 512, 513}
	}
	if c.Mine() {
		for _, N := range fam {
			for D := 0; D <= N; D++ {
				hc.N, hc.K, hc.Draws = N, N/2, D
				r.Case("hyperg", hc)
				r.Try(func() { c06Hyper(hc, r) })
			}
		}
	}
	r.Bound("hypergeometric-family", fmt.Sprintf("N in %v, K=N/2, every Draws and k, sequentially in one process", fam))
}
