package props

import (
	"fmt"

	"github.com/aclements/go-moremath/graph"
	"github.com/aclements/go-moremath/graph/graphalg"

	"verif/mc/core"
	"verif/mc/enum"
)

// C19 — IDom, Dom and DomFrontier equal the definitions of dominance on any flow graph.

func init() {
	core.Register(&core.Prop{
		ID:    "C19",
		Title: "IDom, Dom and DomFrontier equal the definitions of dominance on any flow graph",
		Run:   c19Run,
		Kinds: []core.Kind{core.ReplayOf("dom", c19Check)},
		Rule: "every digraph (self-loops allowed) on n<=4 nodes (thorough 5) with every root; every multigraph on n<=3 nodes whose adjacency lists are sequences of length <=3 (order and parallel edges matter); " +
			"complete structured families up to 200 nodes (irreducible ladders, complete graphs, circulants, unreachable feeders into reachable joins, paths/cycles/trees/DAG layers). " +
			"Oracle: d dominates v iff v is unreachable from the root in G-d. Non-trivial: at least 3 reachable nodes or an unreachable node with an edge into a reachable one.",
		Technique:   "bounded-exhaustive enumeration of all small rooted digraphs/multigraphs on the real IDom/Dom/DomFrontier against dominance decided by node deletion + reachability",
		HangSeconds: 90,
		Assumptions: []string{
			"DomTree.In compared only for nodes that have an immediate dominator",
			"membership of the root in a frontier compared only when the root has 0 or >=2 incoming edges (statement)",
			"frontiers of unreachable nodes are unconstrained (statement speaks of reachable x); frontier lists compared as sets and must be duplicate free",
			"non-termination is observed by a 90 s watchdog on a single case, not proved",
		},
	})
}

func c19Check(c *GCase, r *core.Rec) {
	adj := c.Adj
	n := len(adj)
	g := graph.MakeBiGraph(c.g())
	want, dom, reach := refIDom(adj, c.Root)
	nreach, feeder := 0, false
	for v := range adj {
		if reach[v] {
			nreach++
		} else {
			for _, w := range adj[v] {
				if reach[w] {
					feeder = true
				}
			}
		}
	}
	if nreach >= 3 || feeder {
		r.NT()
	}
	got := graphalg.IDom(g, c.Root)
	r.Trans(1)
	if !equalInts(got, want) {
		r.Fail("IDom", "IDom(%v, root %d)=%v, definition gives %v", adj, c.Root, got, want)
		return
	}
	// fold the result into the outcome set
	h := uint64(1469598103934665603)
	for _, v := range got {
		h = (h ^ uint64(v+2)) * 1099511628211
	}
	r.Outcome(h)
	// Dom
	t := graphalg.Dom(append([]int{}, got...))
	r.Trans(1)
	if t.NumNodes() != n {
		r.Fail("Dom-NumNodes", "NumNodes=%d want %d", t.NumNodes(), n)
	}
	childCount := 0
	for v := 0; v < n; v++ {
		if t.IDom(v) != want[v] {
			r.Fail("Dom-IDom", "DomTree.IDom(%d)=%d want %d", v, t.IDom(v), want[v])
		}
		if want[v] >= 0 {
			in := t.In(v)
			if len(in) != 1 || in[0] != want[v] {
				r.Fail("Dom-In", "DomTree.In(%d)=%v want [%d]", v, in, want[v])
			}
		}
		seen := map[int]bool{}
		for _, ch := range t.Out(v) {
			if ch < 0 || ch >= n || want[ch] != v || seen[ch] {
				r.Fail("Dom-Out", "DomTree.Out(%d)=%v but idom=%v", v, t.Out(v), want)
				break
			}
			seen[ch] = true
			childCount++
		}
	}
	nonRoot := 0
	for _, p := range want {
		if p >= 0 {
			nonRoot++
		}
	}
	if childCount != nonRoot {
		r.Fail("Dom-Out", "child lists hold %d nodes, %d nodes have an immediate dominator", childCount, nonRoot)
	}
	// DomFrontier with nil and with supplied idom
	wantDF := refDomFrontier(adj, c.Root, dom, reach)
	rootIn := 0
	for _, a := range adj {
		for _, v := range a {
			if v == c.Root {
				rootIn++
			}
		}
	}
	checkRoot := rootIn == 0 || rootIn >= 2
	for variant, idomArg := range [][]int{nil, append([]int{}, got...)} {
		df := graphalg.DomFrontier(g, c.Root, idomArg)
		r.Trans(1)
		if len(df) != n {
			r.Fail("DomFrontier-len", "len=%d want %d", len(df), n)
			continue
		}
		for x := 0; x < n; x++ {
			if !reach[x] {
				continue
			}
			gotSet := map[int]bool{}
			dup := false
			for _, y := range df[x] {
				if gotSet[y] {
					dup = true
				}
				gotSet[y] = true
			}
			if dup {
				r.Fail("DomFrontier-dup", "DF(%d)=%v lists a node twice", x, df[x])
			}
			wantSet := map[int]bool{}
			for _, y := range wantDF[x] {
				wantSet[y] = true
			}
			if !checkRoot {
				delete(gotSet, c.Root)
				delete(wantSet, c.Root)
			}
			same := len(gotSet) == len(wantSet)
			for y := range wantSet {
				if !gotSet[y] {
					same = false
				}
			}
			if !same {
				r.Fail("DomFrontier", "graph %v root %d (idom arg variant %d): DF(%d)=%v, definition gives %v", adj, c.Root, variant, x, df[x], wantDF[x])
				break
			}
		}
	}
	// Results already returned keep their value while the library is used further:
	// other roots of the same graph, and graphs of n and n-1 nodes.
	df1 := graphalg.DomFrontier(g, c.Root, nil)
	dfKeep := copyAdj(df1)
	for _, n2 := range []int{n, n - 1} {
		if n2 < 1 {
			continue
		}
		p := make(graph.IntGraph, n2)
		for i := 0; i+1 < n2; i++ {
			p[i] = []int{i + 1, 0}
		}
		pg := graph.MakeBiGraph(p)
		graphalg.IDom(pg, 0)
		graphalg.DomFrontier(pg, 0, nil)
	}
	r2 := (c.Root + 1) % n
	graphalg.Dom(graphalg.IDom(g, r2))
	graphalg.DomFrontier(g, r2, nil)
	r.Trans(7)
	if !equalInts(got, want) {
		r.Fail("IDom-retained", "graph %v root %d: the slice returned by IDom reads %v after later calls, it was %v", adj, c.Root, got, want)
	}
	for v := 0; v < n; v++ {
		if t.IDom(v) != want[v] {
			r.Fail("Dom-retained", "graph %v root %d: DomTree.IDom(%d)=%d after later calls, was %d", adj, c.Root, v, t.IDom(v), want[v])
			break
		}
	}
	if !equalAdj(df1, dfKeep) {
		r.Fail("DomFrontier-retained", "graph %v root %d: the frontier table reads %v after later calls, it was %v", adj, c.Root, df1, dfKeep)
	}
	// History: a second graph of the same size (every edge u->v replaced by u->(v+1) mod n)
	// is analysed right after this one; its dominators are its own.
	if n >= 2 {
		adj2 := make([][]int, n)
		for u, a := range adj {
			for _, v := range a {
				adj2[u] = append(adj2[u], (v+1)%n)
			}
		}
		want2, _, _ := refIDom(adj2, c.Root)
		g2 := graph.MakeBiGraph(graph.IntGraph(copyAdj(adj2)))
		if got2 := graphalg.IDom(g2, c.Root); !equalInts(got2, want2) {
			r.Fail("IDom-second-graph", "IDom(%v, root %d)=%v right after analysing %v; definition gives %v", adj2, c.Root, got2, adj, want2)
		}
		r.Trans(1)
	}
}

func c19Run(c *core.Ctx) {
	r := c.R
	maxN := 4
	if c.Thorough() {
		maxN = 5
	}
	gc := &GCase{}
	run := func(adj [][]int, root int) {
		gc.Adj, gc.Root = adj, root
		r.Case("dom", gc)
		r.Try(func() { c19Check(gc, r) })
	}
	for n := 1; n <= maxN; n++ {
		total := uint64(1) << uint(n*n)
		for code := uint64(0); code < total; code++ {
			if !c.Mine() {
				continue
			}
			adj := enum.Digraph(n, code)
			for root := 0; root < n; root++ {
				run(adj, root)
			}
		}
	}
	r.Bound("digraphs", fmt.Sprintf("all digraphs with self-loops on n<=%d nodes x every root", maxN))
	if maxN < 5 {
		// quick: the complete family of 5-node flow graphs with an entry node
		// (node 0 is the root and has no incoming edge): 2^20 graphs
		const n = 5
		for code := uint64(0); code < 1<<20; code++ {
			if !c.Mine() {
				continue
			}
			// spread the 20 bits over the matrix, skipping column 0
			var full uint64
			b := uint(0)
			for u := 0; u < n; u++ {
				for v := 1; v < n; v++ {
					if code>>b&1 != 0 {
						full |= 1 << uint(u*n+v)
					}
					b++
				}
			}
			run(enum.Digraph(n, full), 0)
		}
		r.Bound("entry_graphs_5", "all 2^20 digraphs on 5 nodes in which the root 0 has no incoming edge")
	}
	// multigraphs n <= 3, adjacency sequences of length <= 3
	for n := 1; n <= 3; n++ {
		var lists [][]int
		for l := 0; l <= 3; l++ {
			enum.Sequences(l, n, func(s []int) { lists = append(lists, append([]int{}, s...)) })
		}
		enum.Sequences(n, len(lists), func(pick []int) {
			if !c.Mine() {
				return
			}
			adj := make([][]int, n)
			for i, p := range pick {
				adj[i] = lists[p]
			}
			for root := 0; root < n; root++ {
				run(adj, root)
			}
		})
	}
	r.Bound("multigraphs", "all multigraphs on n<=3 nodes with adjacency sequences of length<=3 x every root")
	// structured families
	for _, f := range c19Families(c.Thorough()) {
		if !c.Mine() {
			continue
		}
		run(f.adj, f.root)
	}
	// graphs whose node ids cross the storage-growth boundaries of the traversal marks
	for _, n := range []int{1025, 2049} {
		for _, f := range bigFamilies(n) {
			if !c.Mine() {
				continue
			}
			run(f.adj, f.root)
		}
	}
	r.Bound("big_graphs", "7 structured families on 1025 and 2049 nodes (ids cross the 1024/2048 growth boundaries)")
	r.Bound("families", "irreducible ladders, complete graphs, circulant multigraphs, unreachable feeders, paths/cycles/trees/DAG layers up to 200 nodes")
}

func c19Families(thorough bool) []famGraph {
	var fs []famGraph
	sizes := []int{5, 6, 7, 8, 12, 40}
	if thorough {
		sizes = append(sizes, 60, 100, 200)
	}
	for _, n := range sizes {
		// complete graph with self loops
		k := make([][]int, n)
		for i := range k {
			for j := 0; j < n; j++ {
				k[i] = append(k[i], (i+j)%n)
			}
		}
		fs = append(fs, famGraph{"complete", k, 0}, famGraph{"complete", k, n - 1})
		// irreducible ladder: root feeds both rails, rails cross-linked
		lad := make([][]int, n)
		lad[0] = []int{1, 2}
		for i := 1; i < n; i++ {
			if i+2 < n {
				lad[i] = append(lad[i], i+2)
			}
			// cross link to the other rail
			o := i + 1
			if i%2 == 0 {
				o = i - 1
			}
			if o > 0 && o < n {
				lad[i] = append(lad[i], o)
			}
		}
		fs = append(fs, famGraph{"irreducible-ladder", lad, 0})
		// unreachable feeders into reachable joins: reachable diamond chain on the lower half,
		// every node of the upper half points into a join and to the next unreachable node
		h := n / 2
		uf := make([][]int, n)
		for i := 0; i+1 < h; i++ {
			uf[i] = append(uf[i], i+1)
			if i+2 < h {
				uf[i] = append(uf[i], i+2)
			}
		}
		for i := h; i < n; i++ {
			uf[i] = append(uf[i], (i-h)%h, (i*3)%h)
			if i+1 < n {
				uf[i] = append(uf[i], i+1)
			}
		}
		for root := 0; root < 3 && root < h; root++ {
			fs = append(fs, famGraph{"unreachable-feeders", uf, root})
		}
		// circulants (multigraphs: repeated strides, self loops)
		for _, st := range [][]int{{1}, {1, 1}, {1, 2}, {2, 3}, {0, 1, n - 1}, {1, 3, 3, 0}, {n - 1, 2}, {2, 4}} {
			fs = append(fs, famGraph{"circulant", circulant(n, st), 0}, famGraph{"circulant", circulant(n, st), n / 2})
		}
		for _, f := range bigFamilies(n) {
			fs = append(fs, f)
			if f.root != 1 && n > 1 {
				fs = append(fs, famGraph{f.name, f.adj, 1})
			}
		}
	}
	return fs
}
