package props

import (
	"fmt"
	"math"
	"math/big"
	"sort"

	"github.com/aclements/go-moremath/fit"
	"gonum.org/v1/gonum/mat"

	"verif/mc/core"
	"verif/mc/enum"
	"verif/mc/ref"
)

// C15 — Least squares, polynomial regression and LOESS compute the fits they define.

type C15LS struct {
	Xs      []float64 `json:"xs"`
	Ys      []float64 `json:"ys"`
	Weights []float64 `json:"weights"`
	Basis   string    `json:"basis"` // "poly<d>", "trig", "abs", "only-x", "only-exp", "x-x2", "x-then-1"
}

type C15Loess struct {
	Xs     []float64 `json:"xs"`
	Ys     []float64 `json:"ys"`
	Degree int       `json:"degree"`
	Span   float64   `json:"span"`
	Perms  bool      `json:"all_permutations,omitempty"`
}

func init() {
	core.Register(&core.Prop{
		ID:    "C15",
		Title: "Least squares, polynomial regression and LOESS compute the fits they define",
		Run:   c15Run,
		Kinds: []core.Kind{core.ReplayOf("lsq", c15LSCheck), core.ReplayOf("loess", c15LoessCheck)},
		Rule: "every subset of size n of the x lattice {-2,-1.5,-1,-0.25,0,0.5,1,2} (x1 and x10), structured n=40; y from integer-coefficient polynomials of degree 0..6 and a fixed non-polynomial table; weights nil or positive dyadic; bases: monomials to degree 6, {1,sin,exp}, {1,|x|}; " +
			"LOESS on n in 4..7 distinct x, degree 0..2, every window size q>=degree+2, every permutation of the (x,y) pairs for n<=6, queries at data points, mid-points, ends and outside. " +
			"Oracle: the float64 design matrix is an exact rational matrix, so the weighted optimum is computed exactly by big.Rat elimination. Non-trivial: the exact Gram matrix is non-singular with condition number <=1e8.",
		Technique: "bounded-exhaustive design enumeration of the real least-squares/LOESS code against exact rational normal-equation solutions",
		Assumptions: []string{
			"'well-conditioned' is decided by the reference: condition number of the exact weighted Gram matrix <= 1e8 (others counted as skipped); parameter tolerance 64 p cond eps",
			"orthogonality is checked as a backward error: |X'W(y - X beta)|_j <= 64 (n+p) eps (|X|'W|X||beta| + |X|'W|y|)_j, which does not depend on the conditioning",
			"LOESS: either window accepted on an exact distance tie; distinct x (the quantifier's domain)",
		},
	})
}

type c15Term struct {
	name string
	f    func(x float64) float64
}

func c15Basis(name string) []c15Term {
	switch name {
	case "trig":
		return []c15Term{{"1", func(float64) float64 { return 1 }}, {"sin", math.Sin}, {"exp", math.Exp}}
	case "abs":
		return []c15Term{{"1", func(float64) float64 { return 1 }}, {"|x|", math.Abs}}
	case "only-x": // a single non-constant term: slope through the origin
		return []c15Term{{"x", func(x float64) float64 { return x }}}
	case "only-exp":
		return []c15Term{{"exp(x/2)", func(x float64) float64 { return math.Exp(x / 2) }}}
	case "x-x2": // no constant term
		return []c15Term{{"x", func(x float64) float64 { return x }}, {"x^2", func(x float64) float64 { return x * x }}}
	case "2-x": // a constant term that is not 1
		return []c15Term{{"2", func(float64) float64 { return 2 }}, {"x", func(x float64) float64 { return x }}}
	case "half-x2-x": // a constant 0.5 first, then x^2 and x
		return []c15Term{{"0.5", func(float64) float64 { return 0.5 }}, {"x^2", func(x float64) float64 { return x * x }}, {"x", func(x float64) float64 { return x }}}
	case "x-then-1": // constant term last
		return []c15Term{{"x", func(x float64) float64 { return x }}, {"1", func(float64) float64 { return 1 }}}
	}
	var d int
	fmt.Sscanf(name, "poly%d", &d)
	ts := make([]c15Term, d+1)
	for k := 0; k <= d; k++ {
		k := k
		ts[k] = c15Term{fmt.Sprintf("x^%d", k), func(x float64) float64 {
			p := 1.0
			for i := 0; i < k; i++ {
				p *= x
			}
			return p
		}}
	}
	return ts
}

// ratSolve solves G beta = b exactly; ok=false if singular.
func ratSolve(G [][]*big.Rat, b []*big.Rat) ([]*big.Rat, bool) {
	p := len(b)
	A := make([][]*big.Rat, p)
	for i := range A {
		A[i] = make([]*big.Rat, p+1)
		for j := 0; j < p; j++ {
			A[i][j] = new(big.Rat).Set(G[i][j])
		}
		A[i][p] = new(big.Rat).Set(b[i])
	}
	for c := 0; c < p; c++ {
		piv := -1
		for r := c; r < p; r++ {
			if A[r][c].Sign() != 0 {
				piv = r
				break
			}
		}
		if piv < 0 {
			return nil, false
		}
		A[c], A[piv] = A[piv], A[c]
		for r := 0; r < p; r++ {
			if r == c || A[r][c].Sign() == 0 {
				continue
			}
			f := ref.Quo(A[r][c], A[c][c])
			for k := c; k <= p; k++ {
				A[r][k].Sub(A[r][k], ref.Mul(f, A[c][k]))
			}
		}
	}
	x := make([]*big.Rat, p)
	for i := range x {
		x[i] = ref.Quo(A[i][p], A[i][i])
	}
	return x, true
}

// c15Exact builds the exact weighted normal equations for design values phi[j][i].
type c15Problem struct {
	G     [][]*big.Rat
	b     []*big.Rat
	absG  [][]float64
	absB  []float64
	beta  []*big.Rat
	cond  float64
	ok    bool
	phi   [][]float64
	ys    []float64
	ws    []float64
	nrows int
}

func c15Build(phi [][]float64, ys, ws []float64) *c15Problem {
	p, n := len(phi), len(ys)
	pr := &c15Problem{phi: phi, ys: ys, ws: ws, nrows: n}
	pr.G = make([][]*big.Rat, p)
	pr.absG = make([][]float64, p)
	pr.b = make([]*big.Rat, p)
	pr.absB = make([]float64, p)
	w := func(i int) float64 {
		if ws == nil {
			return 1
		}
		return ws[i]
	}
	for j := 0; j < p; j++ {
		pr.G[j] = make([]*big.Rat, p)
		pr.absG[j] = make([]float64, p)
		pr.b[j] = new(big.Rat)
		for k := 0; k < p; k++ {
			pr.G[j][k] = new(big.Rat)
		}
	}
	for i := 0; i < n; i++ {
		wi := ref.R(w(i))
		for j := 0; j < p; j++ {
			wj := ref.Mul(wi, ref.R(phi[j][i]))
			pr.b[j].Add(pr.b[j], ref.Mul(wj, ref.R(ys[i])))
			pr.absB[j] += w(i) * math.Abs(phi[j][i]) * math.Abs(ys[i])
			for k := 0; k < p; k++ {
				pr.G[j][k].Add(pr.G[j][k], ref.Mul(wj, ref.R(phi[k][i])))
				pr.absG[j][k] += w(i) * math.Abs(phi[j][i]) * math.Abs(phi[k][i])
			}
		}
	}
	pr.beta, pr.ok = ratSolve(pr.G, pr.b)
	if pr.ok {
		gf := mat.NewDense(p, p, nil)
		for j := 0; j < p; j++ {
			for k := 0; k < p; k++ {
				gf.Set(j, k, ref.F(pr.G[j][k]))
			}
		}
		pr.cond = mat.Cond(gf, 2)
		if math.IsNaN(pr.cond) || math.IsInf(pr.cond, 0) {
			pr.ok = false
		}
	}
	return pr
}

// checkParams compares library parameters with the exact optimum.
func (pr *c15Problem) checkParams(got []float64, r *core.Rec, tag string) {
	p := len(pr.b)
	if len(got) != p {
		r.Fail("lsq-len", "%s: %d parameters for %d terms", tag, len(got), p)
		return
	}
	maxB := 0.0
	for _, b := range pr.beta {
		maxB = math.Max(maxB, math.Abs(ref.F(b)))
	}
	// forward error of a backward-stable solve of the float-formed normal
	// equations: cond * eps * (|beta| + |X'W|y|| / |G|)
	maxG, maxAbsB := 0.0, 0.0
	for j := range pr.absG {
		maxAbsB = math.Max(maxAbsB, pr.absB[j])
		for k := range pr.absG[j] {
			maxG = math.Max(maxG, math.Abs(ref.F(pr.G[j][k])))
		}
	}
	tol := 64 * float64(p) * pr.cond * ref.Eps * (maxB + maxAbsB/maxG + 1e-300)
	for j := range got {
		if !r.Err("lsq-params", ref.AbsDiff(got[j], pr.beta[j]), tol+1e-300) {
			r.Fail("lsq-params", "%s: parameter %d = %v, exact optimum %v (cond %.3g)", tag, j, got[j], ref.F(pr.beta[j]), pr.cond)
		}
	}
	// orthogonality as a backward error, exact arithmetic on the library's parameters
	n := float64(pr.nrows)
	for j := 0; j < p; j++ {
		e := new(big.Rat).Neg(pr.b[j])
		bound := pr.absB[j]
		for k := 0; k < p; k++ {
			e.Add(e, ref.Mul(pr.G[j][k], ref.R(got[k])))
			bound += pr.absG[j][k] * math.Abs(got[k])
		}
		ef := math.Abs(ref.F(e))
		if !r.Err("lsq-orthogonal", ef, 64*(n+float64(p))*ref.Eps*bound+1e-300) {
			r.Fail("lsq-orthogonal", "%s: weighted residual . basis %d = %v (scale %v)", tag, j, ref.F(e), bound)
		}
		// no perturbation of coefficient j lowers the objective:
		// S(beta + d e_j) - S(beta) = 2 d e_j + d^2 G_jj >= 0 for d = +-delta
		delta := 1e-6 * (math.Abs(got[j]) + 1)
		if gjj := ref.F(pr.G[j][j]); 2*ef > delta*gjj {
			r.Fail("lsq-minimum", "%s: moving coefficient %d by %v lowers the weighted sum of squares", tag, j, delta)
		}
	}
}

func c15LSCheck(c *C15LS, r *core.Rec) {
	basis := c15Basis(c.Basis)
	p, n := len(basis), len(c.Xs)
	phi := make([][]float64, p)
	for j, t := range basis {
		phi[j] = make([]float64, n)
		for i, x := range c.Xs {
			phi[j][i] = t.f(x)
		}
	}
	pr := c15Build(phi, c.Ys, c.Weights)
	if !pr.ok || pr.cond > 1e8 {
		r.Skip("singular or ill-conditioned design (cond > 1e8)")
		return
	}
	r.NT()
	xs, ys := withSpare(c.Xs), withSpare(c.Ys)
	var ws []float64
	if c.Weights != nil {
		ws = withSpare(c.Weights)
	}
	sx, sy, sw := snapFull(xs), snapFull(ys), snapFull(ws)
	terms := make([]func(xs, out []float64), p)
	for j, t := range basis {
		t := t
		terms[j] = func(xs, out []float64) {
			for i, x := range xs {
				out[i] = t.f(x)
			}
		}
	}
	got := fit.LinearLeastSquares(xs, ys, ws, terms...)
	r.Trans(1)
	tag := fmt.Sprintf("LinearLeastSquares(xs=%v ys=%v w=%v basis=%s)", trunc(c.Xs), trunc(c.Ys), trunc(c.Weights), c.Basis)
	pr.checkParams(got, r, tag)
	for _, g := range got {
		r.OutcomeF(g)
	}
	if !sx.same(xs) || !sy.same(ys) || !sw.same(ws) {
		r.Fail("lsq-modified", "%s modified its inputs", tag)
	}
	// a returned result must not change when the library is used again
	keep := append([]float64{}, got...)
	ys2 := make([]float64, n)
	for i := range ys2 {
		ys2[i] = 100 - 7*ys[i]
	}
	fit.LinearLeastSquares(xs, ys2, ws, terms...)
	fit.PolynomialRegression(xs, ys2, nil, 1)
	if !equalF(got, keep) {
		r.Fail("lsq-result-overwritten", "%s: the returned parameters changed from %v to %v after later fits", tag, keep, got)
	}
	// History: the caller rewrites ys in place (tripled: the fit is linear in y) and fits the
	// same slices again
	{
		ys3 := append([]float64{}, ys...)
		first := fit.LinearLeastSquares(xs, ys3, ws, terms...)
		for i := range ys3 {
			ys3[i] *= 3
		}
		second := fit.LinearLeastSquares(xs, ys3, ws, terms...)
		r.Trans(2)
		if len(first) == len(second) {
			for j := range first {
				sc := math.Abs(keep[j]) + 1
				for _, k := range keep {
					sc = math.Max(sc, math.Abs(k))
				}
				if math.Abs(second[j]-3*first[j]) > (100*pr.cond*ref.Eps+1e-9)*sc {
					r.Fail("lsq-rewritten-in-place", "%s: after ys was tripled in place the parameters are %v, before they were %v", tag, second, first)
					break
				}
			}
		}
	}
	var d int
	if _, err := fmt.Sscanf(c.Basis, "poly%d", &d); err != nil {
		return
	}
	// PolynomialRegression of the same degree
	res := fit.PolynomialRegression(xs, ys, ws, d)
	r.Trans(1)
	ptag := fmt.Sprintf("PolynomialRegression(xs=%v ys=%v w=%v degree=%d)", trunc(c.Xs), trunc(c.Ys), trunc(c.Weights), d)
	pr.checkParams(res.Coefficients, r, ptag)
	// F evaluates sum Coefficients[i] x^i
	for _, x := range append([]float64{-2.5, 0, 0.3, 3}, c.Xs...) {
		want := new(big.Rat)
		scale := 0.0
		xp := ref.RI(1)
		for _, cf := range res.Coefficients {
			t := ref.Mul(ref.R(cf), xp)
			want.Add(want, t)
			scale += math.Abs(ref.F(t))
			xp = ref.Mul(xp, ref.R(x))
		}
		if g := res.F(x); !r.Err("poly-F", ref.AbsDiff(g, want), 16*float64(d+1)*ref.Eps*scale+1e-300) {
			r.Fail("poly-F", "%s: F(%v)=%v, sum Coefficients[i]*x^i = %v", ptag, x, g, ref.F(want))
		}
	}
	if !sx.same(xs) || !sy.same(ys) || !sw.same(ws) {
		r.Fail("lsq-modified", "%s modified its inputs", ptag)
	}
	keepC := append([]float64{}, res.Coefficients...)
	f0 := res.F(0.3)
	fit.PolynomialRegression(xs, ys2, ws, d)
	if !equalF(res.Coefficients, keepC) || !sameF(res.F(0.3), f0) {
		r.Fail("lsq-result-overwritten", "%s: Coefficients/F changed after a later fit on other data", ptag)
	}
}

// --- LOESS -----------------------------------------------------------------------

func c15LoessExact(xs, ys []float64, degree, q int, x float64) (vals []float64, conds []float64) {
	// xs sorted ascending, distinct. Candidate windows: the q nearest points;
	// on an exact distance tie both windows are candidates.
	n := len(xs)
	type win struct{ lo int }
	var wins []int
	for lo := 0; lo+q <= n; lo++ {
		// window [lo, lo+q) is a set of q nearest points iff every point outside
		// is at least as far as every point inside
		far := new(big.Rat)
		for i := lo; i < lo+q; i++ {
			d := new(big.Rat).Abs(ref.Sub(ref.R(x), ref.R(xs[i])))
			if d.Cmp(far) > 0 {
				far = d
			}
		}
		ok := true
		for i := 0; i < n; i++ {
			if i >= lo && i < lo+q {
				continue
			}
			d := new(big.Rat).Abs(ref.Sub(ref.R(x), ref.R(xs[i])))
			if d.Cmp(far) < 0 {
				ok = false
			}
		}
		if ok {
			wins = append(wins, lo)
		}
	}
	for _, lo := range wins {
		wx, wy := xs[lo:lo+q], ys[lo:lo+q]
		far := new(big.Rat)
		for _, c := range wx {
			d := new(big.Rat).Abs(ref.Sub(ref.R(x), ref.R(c)))
			if d.Cmp(far) > 0 {
				far = d
			}
		}
		if far.Sign() == 0 {
			continue
		}
		// exact tricube weights
		G := make([][]*big.Rat, degree+1)
		b := make([]*big.Rat, degree+1)
		for j := range G {
			G[j] = make([]*big.Rat, degree+1)
			for k := range G[j] {
				G[j][k] = new(big.Rat)
			}
			b[j] = new(big.Rat)
		}
		nz := 0
		maxY := 0.0
		for _, y := range wy {
			maxY = math.Max(maxY, math.Abs(y))
		}
		for i, c := range wx {
			u := ref.Quo(new(big.Rat).Abs(ref.Sub(ref.R(x), ref.R(c))), far)
			t := ref.Sub(ref.RI(1), ref.Mul(u, ref.Mul(u, u)))
			w := ref.Mul(t, ref.Mul(t, t))
			if w.Sign() != 0 {
				nz++
			}
			pw := make([]*big.Rat, 2*degree+1)
			pw[0] = ref.RI(1)
			for k := 1; k < len(pw); k++ {
				pw[k] = ref.Mul(pw[k-1], ref.R(c))
			}
			for j := 0; j <= degree; j++ {
				b[j].Add(b[j], ref.Mul(w, ref.Mul(pw[j], ref.R(wy[i]))))
				for k := 0; k <= degree; k++ {
					G[j][k].Add(G[j][k], ref.Mul(w, pw[j+k]))
				}
			}
		}
		if nz < degree+1 {
			continue
		}
		beta, ok := ratSolve(G, b)
		if !ok {
			continue
		}
		gf := mat.NewDense(degree+1, degree+1, nil)
		for j := range G {
			for k := range G[j] {
				gf.Set(j, k, ref.F(G[j][k]))
			}
		}
		cond := mat.Cond(gf, 2)
		if !(cond <= 1e8) {
			continue
		}
		// evaluate at x
		v := new(big.Rat)
		xp := ref.RI(1)
		scale := 0.0
		for _, bj := range beta {
			t := ref.Mul(bj, xp)
			v.Add(v, t)
			scale += math.Abs(ref.F(t))
			xp = ref.Mul(xp, ref.R(x))
		}
		vals = append(vals, ref.F(v))
		conds = append(conds, 64*float64(degree+1)*cond*ref.Eps*(scale+maxY+1e-300))
	}
	return
}

func c15LoessCheck(c *C15Loess, r *core.Rec) {
	n := len(c.Xs)
	// q = ceil(span*n) in exact arithmetic on the float span (the statement's formula)
	prod := ref.Mul(ref.R(c.Span), ref.RI(int64(n)))
	qi := new(big.Int).Div(prod.Num(), prod.Denom())
	q := int(qi.Int64())
	if new(big.Rat).SetInt(qi).Cmp(prod) != 0 {
		q++
	}
	if q > n {
		q = n
	}
	// sorted reference data
	idx := make([]int, n)
	for i := range idx {
		idx[i] = i
	}
	sort.Slice(idx, func(a, b int) bool { return c.Xs[idx[a]] < c.Xs[idx[b]] })
	sxs, sys := make([]float64, n), make([]float64, n)
	for i, k := range idx {
		sxs[i], sys[i] = c.Xs[k], c.Ys[k]
	}
	var queries []float64
	for i, x := range sxs {
		queries = append(queries, x)
		if i+1 < n {
			queries = append(queries, (x+sxs[i+1])/2, x+(sxs[i+1]-x)/4)
		}
	}
	span := sxs[n-1] - sxs[0]
	queries = append(queries, sxs[0]-span/8, sxs[n-1]+span/8, sxs[0]-span, sxs[n-1]+2*span)
	xs, ys := withSpare(c.Xs), withSpare(c.Ys)
	sx, sy := snapFull(xs), snapFull(ys)
	f := fit.LOESS(xs, ys, c.Degree, c.Span)
	r.Trans(1)
	got := make([]float64, len(queries))
	any := false
	for qi, x := range queries {
		vals, tols := c15LoessExact(sxs, sys, c.Degree, q, x)
		if len(vals) == 0 {
			r.Skip("LOESS query with singular or ill-conditioned local design")
			got[qi] = math.NaN()
			continue
		}
		any = true
		g := f(x)
		got[qi] = g
		r.Trans(1)
		r.OutcomeF(g)
		ok := false
		for vi := range vals {
			if math.Abs(g-vals[vi]) <= tols[vi] {
				ok = true
				r.Err("loess", math.Abs(g-vals[vi]), tols[vi])
			}
		}
		if !ok {
			r.Fail("loess", "LOESS(xs=%v ys=%v degree=%d span=%v)(%v)=%v, exact tricube-weighted local fit on the %d nearest points gives %v (tol %v)", trunc(c.Xs), trunc(c.Ys), c.Degree, c.Span, x, g, q, vals, tols)
		}
	}
	if any {
		r.NT()
	}
	if !sx.same(xs) || !sy.same(ys) {
		r.Fail("loess-modified", "LOESS modified its inputs")
	}
	// locality: changing y outside the window of a query changes nothing (bitwise)
	for qi, x := range queries {
		if math.IsNaN(got[qi]) || q >= n {
			continue
		}
		// the points strictly farther than the q-th nearest
		ds := make([]float64, n)
		for i := range sxs {
			ds[i] = math.Abs(x - sxs[i])
		}
		sd := append([]float64{}, ds...)
		sort.Float64s(sd)
		if sd[q-1] == sd[q] {
			continue // tie: the window is not unique
		}
		ys2 := append([]float64{}, c.Ys...)
		for i := range c.Xs {
			if math.Abs(x-c.Xs[i]) > sd[q-1] {
				ys2[i] += 1000
			}
		}
		if g2 := fit.LOESS(c.Xs, ys2, c.Degree, c.Span)(x); !sameF(g2, got[qi]) {
			r.Fail("loess-locality", "LOESS(xs=%v degree=%d span=%v)(%v) changed from %v to %v when y outside the %d nearest points changed", trunc(c.Xs), c.Degree, c.Span, x, got[qi], g2, q)
		}
	}
	// permutation independence (bitwise): sorted order and, if asked, every permutation
	check := func(px, py []float64) {
		bx, by := snapFull(px), snapFull(py)
		g := fit.LOESS(px, py, c.Degree, c.Span)
		r.Trans(1)
		defer func() {
			if !bx.same(px) || !by.same(py) {
				r.Fail("loess-modified", "LOESS modified its inputs given in the order xs=%v", bx.bits)
			}
		}()
		for qi, x := range queries {
			if math.IsNaN(got[qi]) {
				continue
			}
			if v := g(x); !sameF(v, got[qi]) {
				r.Fail("loess-order", "LOESS on order xs=%v gives %v at %v, on xs=%v it gives %v", trunc(px), v, x, trunc(c.Xs), got[qi])
				return
			}
		}
	}
	check(sxs, sys)
	check(reversed(sxs), reversed(sys))
	if c.Perms {
		px, py := make([]float64, n), make([]float64, n)
		enum.Permutations(n, func(p []int) {
			for i, k := range p {
				px[i], py[i] = sxs[k], sys[k]
			}
			check(px, py)
		})
	}
}

// --- driver -------------------------------------------------------------------------

var c15Lattice = []float64{-2, -1.5, -1, -0.25, 0, 0.5, 1, 2}

var c15Polys = [][]float64{{3}, {1, -2}, {0, 0, 1}, {1, 1, 0, 1}, {2, -1, 0, 0, 1}, {0, 1, 0, -1, 0, 1}, {1, 0, -2, 0, 0, 0, 1}}

func polyEval(cf []float64, x float64) float64 {
	y := 0.0
	for i := len(cf) - 1; i >= 0; i-- {
		y = y*x + cf[i]
	}
	return y
}

func c15Run(c *core.Ctx) {
	r := c.R
	sizes := []int{3, 4, 5, 6}
	if c.Thorough() {
		sizes = []int{3, 4, 5, 6, 7, 8}
	}
	ls := &C15LS{}
	runLS := func(xs, ys, ws []float64, basis string) {
		ls.Xs, ls.Ys, ls.Weights, ls.Basis = xs, ys, ws, basis
		r.Case("lsq", ls)
		r.Try(func() { c15LSCheck(ls, r) })
	}
	table := []float64{0.3, -1.2, 2.5, 0, 4.75, -3, 1.125, 0.5, 2, -0.75}
	designs := func(f func(xs []float64)) {
		for _, n := range sizes {
			enum.Combinations(len(c15Lattice), n, func(cb []int) {
				if !c.Mine() {
					return
				}
				for _, sc := range []float64{1, 10} {
					xs := make([]float64, n)
					for i, k := range cb {
						xs[i] = c15Lattice[k] * sc
					}
					// present unsorted
					f(riffle(xs))
				}
			})
		}
		if c.Mine() {
			xs := make([]float64, 40)
			for i := range xs {
				xs[i] = -2 + 4*float64((i*17)%40)/39
			}
			f(xs)
		}
	}
	designs(func(xs []float64) {
		n := len(xs)
		ws := make([]float64, n)
		for i := range ws {
			ws[i] = []float64{1, 2, 0.5, 4, 0.25, 3}[i%6]
		}
		for pi, cf := range c15Polys {
			ys := make([]float64, n)
			for i, x := range xs {
				ys[i] = polyEval(cf, x)
			}
			for d := 0; d <= 6 && d < n; d++ {
				if d < pi-1 && !c.Thorough() {
					continue // quick: fitting degrees around the generating degree
				}
				runLS(xs, ys, nil, fmt.Sprintf("poly%d", d))
				runLS(xs, ys, ws, fmt.Sprintf("poly%d", d))
			}
		}
		ys := make([]float64, n)
		for i := range ys {
			ys[i] = table[i%len(table)]
		}
		for d := 0; d <= 6 && d < n; d++ {
			runLS(xs, ys, nil, fmt.Sprintf("poly%d", d))
			runLS(xs, ys, ws, fmt.Sprintf("poly%d", d))
		}
		runLS(xs, ys, nil, "trig")
		runLS(xs, ys, ws, "trig")
		runLS(xs, ys, nil, "abs")
		runLS(xs, ys, ws, "abs")
		for _, b := range []string{"only-x", "only-exp", "x-x2", "x-then-1", "2-x", "half-x2-x"} {
			runLS(xs, ys, nil, b)
			runLS(xs, ys, ws, b)
		}
		// data generated exactly by the single term
		for _, b := range []string{"only-x", "only-exp"} {
			t := c15Basis(b)[0]
			for i, x := range xs {
				ys[i] = 2.5 * t.f(x)
			}
			runLS(xs, ys, nil, b)
			runLS(xs, ys, ws, b)
		}
	})
	r.Bound("least_squares", fmt.Sprintf("every subset of size %v of the 8-point lattice x {1,10} + n=40; 7 generating polynomials + table; degrees 0..6; 8 other bases (incl. single non-constant terms, bases without / ending in the constant, constants other than 1); weighted and unweighted", sizes))
	// LOESS
	lc := &C15Loess{}
	lsizes := []int{4, 5, 6}
	permN := 5
	if c.Thorough() {
		lsizes = []int{4, 5, 6, 7}
		permN = 6
	}
	for _, n := range lsizes {
		enum.Combinations(len(c15Lattice), n, func(cb []int) {
			if !c.Mine() {
				return
			}
			xs := make([]float64, n)
			for i, k := range cb {
				xs[i] = c15Lattice[k]
			}
			xs = riffle(xs)
			for yi := 0; yi < 3; yi++ {
				ys := make([]float64, n)
				for i, x := range xs {
					switch yi {
					case 0:
						ys[i] = polyEval([]float64{1, -2, 0.5}, x) // quadratic: reproduced by degree 2
					case 1:
						ys[i] = table[(i*3)%len(table)]
					case 2:
						ys[i] = 2*x - 1 // linear
					}
				}
				for degree := 0; degree <= 2; degree++ {
					for q := degree + 2; q <= n; q++ {
						lc.Xs, lc.Ys, lc.Degree = xs, ys, degree
						lc.Span = (float64(q) - 0.5) / float64(n)
						if q == n {
							lc.Span = 1
						}
						lc.Perms = n <= permN && yi == 1
						r.Case("loess", lc)
						r.Try(func() { c15LoessCheck(lc, r) })
					}
					// spans for which span*n is an exact integer (dyadic, so exact in float64 too):
					// the window is exactly span*n points, not one more
					for _, sp := range []float64{0.25, 0.5, 0.75} {
						if w := sp * float64(n); w == math.Floor(w) && int(w) >= degree+2 && int(w) < n {
							lc.Xs, lc.Ys, lc.Degree, lc.Span, lc.Perms = xs, ys, degree, sp, false
							r.Case("loess", lc)
							r.Try(func() { c15LoessCheck(lc, r) })
						}
					}
				}
			}
		})
	}
	r.Bound("loess", fmt.Sprintf("every subset of size %v of the lattice, 3 responses, degree 0..2, every window size, all permutations for n<=%d", lsizes, permN))
}
