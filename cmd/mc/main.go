// Command mc drives the bounded-exhaustive checks.
//
//	mc run <ID> <quick|thorough>     shard over worker subprocesses, merge, write evidence
//	mc worker <ID> <tier> <shard> <n> <out.json>
//	mc replay <file>                 re-execute one recorded case 5x
//	mc list
package main

import (
	"bufio"
	"encoding/json"
	"fmt"
	"os"
	"os/exec"
	"path/filepath"
	"runtime"
	"sort"
	"strconv"
	"strings"
	"sync"
	"time"

	"verif/mc/core"
	_ "verif/props"
)

func main() {
	if len(os.Args) < 2 {
		usage()
	}
	switch os.Args[1] {
	case "run":
		if len(os.Args) < 4 {
			usage()
		}
		os.Exit(run(os.Args[2], os.Args[3]))
	case "worker":
		if len(os.Args) < 7 {
			usage()
		}
		sh, _ := strconv.Atoi(os.Args[4])
		n, _ := strconv.Atoi(os.Args[5])
		os.Exit(worker(os.Args[2], os.Args[3], sh, n, os.Args[6]))
	case "isolated":
		if len(os.Args) < 4 {
			usage()
		}
		os.Exit(core.RunIsolated(os.Args[2], os.Args[3], os.Stdin, os.Stdout))
	case "replay":
		if len(os.Args) < 3 {
			usage()
		}
		os.Exit(replay(os.Args[2]))
	case "list":
		for _, id := range core.IDs() {
			fmt.Println(id, core.Lookup(id).Title)
		}
	default:
		usage()
	}
}

func usage() {
	fmt.Fprintln(os.Stderr, "usage: mc run <ID> <quick|thorough> | mc worker ... | mc replay <file> | mc list")
	os.Exit(2)
}

func seed() int64 {
	s, err := strconv.ParseInt(os.Getenv("VERIF_SEED"), 10, 64)
	if err != nil {
		return 0
	}
	return s
}

func verifDir() string {
	if d := os.Getenv("VERIF_DIR"); d != "" {
		return d
	}
	return "/verif"
}

// ---------------------------------------------------------------------------
// worker

func worker(id, tier string, shard, n int, out string) int {
	p := core.Lookup(id)
	if p == nil {
		fmt.Fprintln(os.Stderr, "unknown property", id)
		return 4 // harness failure (2 is what the Go runtime exits with on a fatal error)
	}
	r := core.NewRec(id, seed())
	if jp := os.Getenv("MC_JOURNAL"); jp != "" {
		r.Journal = func(kind string, c any) {
			b, _ := json.Marshal(map[string]any{"kind": kind, "case": c})
			os.WriteFile(jp, b, 0o644)
		}
	}
	hang := 300 * time.Second
	if p.HangSeconds > 0 {
		hang = time.Duration(p.HangSeconds) * time.Second
	}
	if s := os.Getenv("MC_HANG_S"); s != "" {
		if v, err := strconv.Atoi(s); err == nil {
			hang = time.Duration(v) * time.Second
		}
	}
	write := func() {
		r.Finish()
		for _, v := range r.Viol {
			v.Shard, v.NShards, v.Tier = shard, n, tier
		}
		for _, v := range r.Known {
			v.Shard, v.NShards, v.Tier = shard, n, tier
		}
		b, err := json.Marshal(r)
		if err != nil {
			fmt.Fprintln(os.Stderr, "marshal:", err)
			os.Exit(4)
		}
		if err := os.WriteFile(out, b, 0o644); err != nil {
			fmt.Fprintln(os.Stderr, "write:", err)
			os.Exit(4)
		}
	}
	done := make(chan struct{})
	go func() {
		last, since := int64(-1), time.Now()
		for {
			select {
			case <-done:
				return
			case <-time.After(2 * time.Second):
			}
			cur := r.Progress.Load()
			if cur != last {
				last, since = cur, time.Now()
				continue
			}
			if time.Since(since) > hang {
				// The main goroutine is stuck inside one case. Decide from its
				// stack whether it is stuck in the library (a violation: non-
				// termination) or in the harness' own reference code (never a
				// violation: the run is reported as incomplete).
				buf := make([]byte, 1<<20)
				buf = buf[:runtime.Stack(buf, true)]
				if where := stuckIn(string(buf)); where == "library" {
					r.Fail("hang", "no progress for %v inside one case; the innermost non-runtime frame is library code (non-termination or pathological slowness)", hang)
				} else {
					r.Incomplete = append(r.Incomplete, fmt.Sprintf("harness reference computation exceeded %v on one case (stuck in %s); no verdict for the rest of this shard", hang, where))
				}
				write()
				os.Exit(3)
			}
		}
	}()
	ctx := &core.Ctx{Tier: tier, Shard: shard, NShards: n, Seed: seed(), R: r}
	p.Run(ctx)
	close(done)
	write()
	return 0
}

// stuckIn inspects an all-goroutine stack dump and reports whether the
// goroutine that runs the property (the one with verif/props frames) has
// library code or harness code as its innermost non-runtime frame.
func stuckIn(dump string) string {
	for _, g := range strings.Split(dump, "\n\n") {
		if !strings.Contains(g, "verif/props.") {
			continue
		}
		for _, l := range strings.Split(g, "\n") {
			if strings.HasPrefix(l, "\t") || strings.HasPrefix(l, "goroutine ") {
				continue
			}
			switch {
			case strings.HasPrefix(l, "github.com/aclements/go-moremath/"):
				return "library"
			case strings.HasPrefix(l, "verif/"):
				return "harness (" + l + ")"
			}
		}
	}
	return "unknown"
}

// ---------------------------------------------------------------------------
// known findings

type finding struct {
	status, property, id, rest string
}

func loadFindings() []finding {
	var fs []finding
	f, err := os.Open(filepath.Join(verifDir(), "KNOWN_FINDINGS.txt"))
	if err != nil {
		return nil
	}
	defer f.Close()
	sc := bufio.NewScanner(f)
	sc.Buffer(make([]byte, 1<<20), 1<<20)
	for sc.Scan() {
		l := strings.TrimSpace(sc.Text())
		if l == "" || strings.HasPrefix(l, "#") {
			continue
		}
		var fd finding
		switch {
		case strings.HasPrefix(l, "open:"):
			fd.status = "open"
			l = strings.TrimSpace(l[len("open:"):])
		case strings.HasPrefix(l, "fixed:"):
			fd.status = "fixed"
			l = strings.TrimSpace(l[len("fixed:"):])
		default:
			continue
		}
		for _, tok := range strings.Fields(l) {
			if strings.HasPrefix(tok, "property=") && fd.property == "" {
				fd.property = tok[len("property="):]
			}
			if strings.HasPrefix(tok, "id=") && fd.id == "" {
				fd.id = tok[len("id="):]
			}
		}
		fd.rest = l
		fs = append(fs, fd)
	}
	return fs
}

// ---------------------------------------------------------------------------
// driver

func run(id, tier string) int {
	p := core.Lookup(id)
	if p == nil {
		fmt.Fprintln(os.Stderr, "unknown property", id)
		return 2
	}
	if tier != "quick" && tier != "thorough" {
		fmt.Fprintln(os.Stderr, "tier must be quick or thorough")
		return 2
	}
	start := time.Now()
	vd := verifDir()
	work := filepath.Join(vd, ".work", id+"-"+tier+"-"+strconv.Itoa(os.Getpid()))
	os.MkdirAll(work, 0o755)
	defer os.RemoveAll(work)
	os.MkdirAll(filepath.Join(vd, "evidence"), 0o755)
	os.MkdirAll(filepath.Join(vd, "replays"), 0o755)

	n := 16
	if s := os.Getenv("MC_SHARDS"); s != "" {
		if v, err := strconv.Atoi(s); err == nil && v > 0 {
			n = v
		}
	}
	if p.Serial {
		n = 1
	}
	par := runtime.NumCPU()
	if par > n {
		par = n
	}
	self, _ := os.Executable()
	total := core.NewRec(id, seed())
	var mu sync.Mutex
	var wg sync.WaitGroup
	sem := make(chan struct{}, par)
	exhaustive := true
	var harnessErr []string
	runShard := func(sh int, journal string) (res *core.Rec, err error, stderr string) {
		out := filepath.Join(work, fmt.Sprintf("shard-%d.json", sh))
		os.Remove(out)
		cmd := exec.Command(self, "worker", id, tier, strconv.Itoa(sh), strconv.Itoa(n), out)
		cmd.Env = append(os.Environ(), "GOMAXPROCS=2")
		if journal != "" {
			cmd.Env = append(cmd.Env, "MC_JOURNAL="+journal)
		}
		var sb strings.Builder
		cmd.Stderr = &sb
		cmd.Stdout = &sb
		err = cmd.Run()
		b, rerr := os.ReadFile(out)
		if rerr == nil {
			res = &core.Rec{}
			if jerr := json.Unmarshal(b, res); jerr != nil {
				res = nil
			}
		}
		s := sb.String()
		if len(s) > 4000 {
			s = s[:2000] + "\n...\n" + s[len(s)-2000:]
		}
		return res, err, s
	}
	for sh := 0; sh < n; sh++ {
		wg.Add(1)
		go func(sh int) {
			defer wg.Done()
			sem <- struct{}{}
			defer func() { <-sem }()
			res, err, stderr := runShard(sh, "")
			if ee, ok := err.(*exec.ExitError); res == nil && ok && ee.ExitCode() == 4 {
				// The harness itself failed (not the library): never a violation. (Exit code 2
				// is NOT a harness failure: it is how the Go runtime ends a process on a fatal
				// error such as a stack overflow inside library code; that goes through the
				// journal re-run below and is reported with the case that kills the worker.)
				mu.Lock()
				harnessErr = append(harnessErr, fmt.Sprintf("shard %d: %s", sh, stderr))
				mu.Unlock()
				return
			}
			if res == nil {
				// The worker died without a result (fatal error, OOM,
				// stack overflow). Re-run the shard with a journal to find
				// the case, then check that it dies reproducibly.
				jp := filepath.Join(work, fmt.Sprintf("journal-%d.json", sh))
				res2, _, stderr2 := runShard(sh, jp)
				mu.Lock()
				defer mu.Unlock()
				if res2 != nil {
					// Did not reproduce: not believed, not reported.
					total.Merge(fix(res2))
					total.Incomplete = append(total.Incomplete, fmt.Sprintf("shard %d died once (%v) and then completed; unreproduced", sh, err))
					return
				}
				jb, _ := os.ReadFile(jp)
				var j struct {
					Kind string          `json:"kind"`
					Case json.RawMessage `json:"case"`
				}
				json.Unmarshal(jb, &j)
				if j.Kind == "" {
					total.Incomplete = append(total.Incomplete, fmt.Sprintf("shard %d died before its first case: %s", sh, firstLine(stderr2)))
					fmt.Fprintf(os.Stderr, "shard %d died before its first case:\n%s\n", sh, stderr2)
					exhaustive = false
					return
				}
				sig := "crash:" + crashSite(stderr2)
				if total.Viol[sig] == nil {
					total.Viol[sig] = &core.Violation{Property: id, Kind: j.Kind, Sig: sig,
						Msg: "worker process died while executing this case: " + firstLine(stderr+stderr2), Case: j.Case, Count: 1}
				}
				total.Incomplete = append(total.Incomplete, fmt.Sprintf("shard %d aborted by a fatal error", sh))
				exhaustive = false
				return
			}
			mu.Lock()
			defer mu.Unlock()
			total.Merge(fix(res))
			if err != nil {
				// exit 3 = watchdog; the result carries the hang violation.
				exhaustive = false
				total.Incomplete = append(total.Incomplete, fmt.Sprintf("shard %d stopped early: %v", sh, err))
			}
		}(sh)
	}
	wg.Wait()
	if len(harnessErr) > 0 {
		fmt.Fprintf(os.Stderr, "HARNESS ERROR (no verdict):\n%s\n", strings.Join(harnessErr, "\n"))
		return 2
	}
	if p.Post != nil {
		p.Post(tier, total)
	}
	if len(total.Incomplete) > 0 {
		exhaustive = false
	}

	// Classify known-finding hits against the committed file.
	findings := loadFindings()
	open := map[string]finding{}
	for _, f := range findings {
		if f.status == "open" && f.property == id {
			open[f.id] = f
		}
	}
	knownOut := map[string]any{}
	var knownIDs []string
	for k := range total.Known {
		knownIDs = append(knownIDs, k)
	}
	sort.Strings(knownIDs)
	for _, k := range knownIDs {
		v := total.Known[k]
		if f, ok := open[k]; ok {
			fmt.Printf("KNOWN-FINDING: property=%s id=%s cases=%d first: %s\n", id, k, v.Count, v.Msg)
			_ = f
			knownOut[k] = map[string]any{"cases": v.Count, "first_case": v.Case, "message": v.Msg}
		} else {
			// Signature matched but the finding is not listed: a violation.
			v.Sig = "unlisted-known:" + k
			total.Viol[v.Sig] = v
		}
	}

	// Re-execute every violation 5x in fresh processes; only reproducible
	// ones are reported.
	var sigs []string
	for s := range total.Viol {
		sigs = append(sigs, s)
	}
	sort.Slice(sigs, func(i, j int) bool {
		a, b := total.Viol[sigs[i]], total.Viol[sigs[j]]
		if a.Order != b.Order {
			return a.Order < b.Order
		}
		return sigs[i] < sigs[j]
	})
	nviol := 0
	var unreproduced []string
	for _, s := range sigs {
		v := total.Viol[s]
		v.Property = id
		path := filepath.Join(vd, "replays", fmt.Sprintf("%s-%s.json", id, core.SigHash(s)))
		b, _ := json.MarshalIndent(v, "", " ")
		os.WriteFile(path, b, 0o644)
		if os.Getenv("MC_NO_RECHECK") == "" && !strings.HasPrefix(s, "crash:") && !strings.HasPrefix(s, "hang") && !strings.HasPrefix(s, "post:") {
			ok := true
			for i := 0; i < 5 && ok; i++ {
				cmd := exec.Command(self, "replay", path)
				cmd.Env = append(os.Environ(), "MC_REPLAY_QUIET=1", "MC_REPLAY_ONCE=1")
				err := cmd.Run()
				if ee, isExit := err.(*exec.ExitError); !(isExit && ee.ExitCode() == 1) {
					ok = false
				}
			}
			if !ok {
				// Another kind of case failed with the same signature: it may be
				// self-contained (e.g. a deliberate history case).
				for _, a := range v.Alts {
					w := *v
					w.Kind, w.Msg, w.Case, w.Alts = a.Kind, a.Msg, a.Case, nil
					wb, _ := json.MarshalIndent(&w, "", " ")
					os.WriteFile(path, wb, 0o644)
					good := true
					for i := 0; i < 5 && good; i++ {
						cmd := exec.Command(self, "replay", path)
						cmd.Env = append(os.Environ(), "MC_REPLAY_QUIET=1", "MC_REPLAY_ONCE=1")
						err := cmd.Run()
						if ee, isExit := err.(*exec.ExitError); !(isExit && ee.ExitCode() == 1) {
							good = false
						}
					}
					if good {
						*v = w
						ok = true
						break
					}
				}
				if !ok {
					os.WriteFile(path, b, 0o644)
				}
			}
			if !ok && v.NShards > 0 {
				// The case alone does not fail in a fresh process. If re-running the
				// whole shard (the same deterministic sequence of cases) fails again
				// with the same signature, twice, the failure depends on the calls
				// made before it: still a violation, replayable as that history.
				again := 0
				for i := 0; i < 2; i++ {
					res, _, _ := runShard(v.Shard, "")
					if res != nil && res.Viol[s] != nil {
						again++
					}
				}
				if again == 2 {
					ok = true
					v.Msg = "[fails only after the preceding cases of its shard: the result depends on earlier calls] " + v.Msg
					v.Kind = "@shard:" + v.Kind
					b, _ := json.MarshalIndent(v, "", " ")
					os.WriteFile(path, b, 0o644)
				}
			}
			if !ok {
				unreproduced = append(unreproduced, s)
				os.Remove(path)
				continue
			}
		}
		nviol++
		fmt.Printf("VIOLATION property=%s replay=%s\n", id, path)
		fmt.Printf("  signature=%s cases=%d kind=%s\n  %s\n  case=%s\n", s, v.Count, v.Kind, v.Msg, trunc(string(v.Case), 600))
		if !strings.HasPrefix(v.Kind, "@shard:") {
			fmt.Printf("  unit test: cd %s && REPLAY=%s go test ./replay -run TestReplay -count=1 -v\n", vd, path)
		}
	}

	// Evidence.
	st, tr, va := total.States, total.Transitions, total.Validated
	if st == 0 {
		st = total.Evals
	}
	if tr == 0 {
		tr = total.Evals
	}
	if va == 0 {
		va = total.Evals
	}
	samples := make([]any, 0, len(total.Samples))
	for _, s := range total.Samples {
		samples = append(samples, s)
	}
	if len(samples) == 0 {
		samples = append(samples, "no case executed")
	}
	outcomes := len(total.Outcomes)
	cov := map[string]any{
		"states":                        st,
		"transitions":                   tr,
		"traces_validated_against_impl": va,
		"samples":                       samples,
		"evaluations":                   total.Evals,
		"distinct_nontrivial":           total.Nontrivial,
		"rule":                          p.Rule,
		"exhaustive":                    exhaustive,
		"bounds_completed":              total.Bounds,
		"distinct_outcomes":             outcomes,
		"distinct_outcomes_capped":      total.OutcomesCap,
		"error_margins":                 total.Margins,
		"out_of_domain_skipped":         total.Skipped,
		"counters":                      total.Counters,
		"known_finding_hits":            knownOut,
		"notes":                         total.Notes,
		"incomplete":                    total.Incomplete,
		"unreproduced":                  unreproduced,
		"shards":                        n,
		"technique":                     p.Technique,
	}
	ev := map[string]any{
		"property_id": id,
		"tier":        tier,
		"seed":        seed(),
		"level":       "model_checking",
		"coverage":    cov,
		"assumptions": p.Assumptions,
		"wall_s":      time.Since(start).Seconds(),
		"violations":  nviol,
	}
	eb, _ := json.MarshalIndent(ev, "", " ")
	if err := os.WriteFile(filepath.Join(vd, "evidence", id+".json"), eb, 0o644); err != nil {
		fmt.Fprintln(os.Stderr, "cannot write evidence:", err)
		return 2
	}
	fmt.Printf("%s %s: cases=%d nontrivial=%d states=%d transitions=%d outcomes=%d exhaustive=%v violations=%d known=%d wall=%.1fs\n",
		id, tier, total.Evals, total.Nontrivial, st, tr, outcomes, exhaustive, nviol, len(knownOut), time.Since(start).Seconds())
	var mk []string
	for k := range total.Margins {
		mk = append(mk, k)
	}
	sort.Strings(mk)
	for _, k := range mk {
		m := total.Margins[k]
		fmt.Printf("  margin %-28s worst %.3g of tol %.3g (ratio %.3g, n=%d)\n", k, m.WorstErr, m.Tol, m.WorstRatio, m.N)
	}
	for _, s := range total.Incomplete {
		fmt.Println("  incomplete:", s)
	}
	if nviol > 0 {
		return 1
	}
	return 0
}

// fix restores the maps a JSON round trip leaves nil.
func fix(r *core.Rec) *core.Rec {
	if r.Skipped == nil {
		r.Skipped = map[string]int64{}
	}
	if r.Counters == nil {
		r.Counters = map[string]int64{}
	}
	if r.Margins == nil {
		r.Margins = map[string]*core.Margin{}
	}
	if r.Viol == nil {
		r.Viol = map[string]*core.Violation{}
	}
	if r.Known == nil {
		r.Known = map[string]*core.Violation{}
	}
	if r.Bounds == nil {
		r.Bounds = map[string]string{}
	}
	return r
}

func firstLine(s string) string {
	for _, l := range strings.Split(s, "\n") {
		l = strings.TrimSpace(l)
		if l != "" {
			return trunc(l, 300)
		}
	}
	return ""
}

func crashSite(s string) string {
	for _, l := range strings.Split(s, "\n") {
		l = strings.TrimSpace(l)
		if i := strings.Index(l, "/repo/"); i >= 0 {
			t := l[i+len("/repo/"):]
			if j := strings.Index(t, " "); j >= 0 {
				t = t[:j]
			}
			return t
		}
	}
	return "unknown"
}

func trunc(s string, n int) string {
	if len(s) > n {
		return s[:n] + "…"
	}
	return s
}

// ---------------------------------------------------------------------------
// replay

func replay(path string) int {
	b, err := os.ReadFile(path)
	if err != nil {
		fmt.Fprintln(os.Stderr, err)
		return 2
	}
	var v core.Violation
	if err := json.Unmarshal(b, &v); err != nil {
		fmt.Fprintln(os.Stderr, err)
		return 2
	}
	p := core.Lookup(v.Property)
	if p == nil {
		fmt.Fprintln(os.Stderr, "unknown property", v.Property)
		return 2
	}
	if strings.HasPrefix(v.Kind, "@shard:") {
		// history-dependent: re-run the shard that found it
		self, _ := os.Executable()
		out := filepath.Join(os.TempDir(), fmt.Sprintf("mc-replay-%d.json", os.Getpid()))
		defer os.Remove(out)
		hit := 0
		for i := 0; i < 2; i++ {
			cmd := exec.Command(self, "worker", v.Property, v.Tier, strconv.Itoa(v.Shard), strconv.Itoa(v.NShards), out)
			cmd.Run()
			b, err := os.ReadFile(out)
			if err != nil {
				continue
			}
			var res core.Rec
			if json.Unmarshal(b, &res) == nil && res.Viol[v.Sig] != nil {
				hit++
			}
		}
		if hit == 2 {
			if os.Getenv("MC_REPLAY_QUIET") == "" {
				fmt.Printf("REPRODUCED 2x (whole shard %d/%d of tier %s) property=%s signature=%s\n%s\n", v.Shard, v.NShards, v.Tier, v.Property, v.Sig, v.Msg)
			}
			return 1
		}
		fmt.Printf("NOT REPRODUCED property=%s signature=%s (shard re-run)\n", v.Property, v.Sig)
		return 0
	}
	var k *core.Kind
	for i := range p.Kinds {
		if p.Kinds[i].Name == v.Kind {
			k = &p.Kinds[i]
		}
	}
	if k == nil {
		fmt.Fprintf(os.Stderr, "property %s has no replayer for kind %q\n", v.Property, v.Kind)
		return 2
	}
	quiet := os.Getenv("MC_REPLAY_QUIET") != ""
	times := 5
	if os.Getenv("MC_REPLAY_ONCE") != "" {
		times = 1
	}
	want := strings.TrimPrefix(v.Sig, "unlisted-known:")
	var first string
	reproduced := 0
	for i := 0; i < times; i++ {
		r := core.NewRec(v.Property, 0)
		if err := k.Replay(v.Case, r); err != nil {
			fmt.Fprintln(os.Stderr, "replay:", err)
			return 2
		}
		var got []string
		for s, x := range r.Viol {
			got = append(got, s+": "+x.Msg)
		}
		for s, x := range r.Known {
			got = append(got, "known:"+s+": "+x.Msg)
		}
		sort.Strings(got)
		obs := strings.Join(got, "\n")
		if i == 0 {
			first = obs
		} else if obs != first {
			fmt.Printf("NONDETERMINISTIC replay: run %d observed\n%s\nbut run 0 observed\n%s\n", i, obs, first)
			return 3
		}
		if r.Viol[want] != nil || r.Known[want] != nil {
			reproduced++
		}
	}
	if reproduced == times {
		if !quiet {
			fmt.Printf("REPRODUCED %dx property=%s kind=%s signature=%s\n%s\ncase=%s\n", times, v.Property, v.Kind, v.Sig, first, string(v.Case))
			if k.GoTest != nil {
				fmt.Println("--- stand-alone unit test ---")
				fmt.Println(k.GoTest(v.Case))
			}
		}
		return 1
	}
	if !quiet {
		fmt.Printf("NOT REPRODUCED (%d/%d) property=%s kind=%s signature=%s\nobserved:\n%s\n", reproduced, times, v.Property, v.Kind, v.Sig, first)
	}
	return 0
}
