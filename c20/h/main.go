//go:build verif

// Command h is the C20 harness. It is built only through the overlay produced
// by /verif/c20/gen (instrumented library + virtual verifhook package).
//
//	h fresh <entry>                         print the result of one entry in a fresh process (hex)
//	h purity <shard> <nshards> <variants>   inputs untouched + repeat determinism on fixture variants
//	h history <depth> <shard> <nshards>     every call sequence up to depth against fresh references
//	h sched <bound> <threads> <shard> <nshards> <mode>   interleaving exploration
//	h replay <json>                         re-run one recorded case
package main

import (
	"bytes"
	"encoding/hex"
	"encoding/json"
	"fmt"
	"hash/fnv"
	"math"
	"os"
	osexec "os/exec"
	"reflect"
	"sort"
	"strconv"
	"strings"
	"sync/atomic"
	"time"

	"github.com/aclements/go-moremath/verifhook"

	"verif/c20/alpha"
)

// Out is what every mode prints as JSON.
type Out struct {
	Evals       int64             `json:"evals"`
	Nontrivial  int64             `json:"nontrivial"`
	States      int64             `json:"states"`
	Transitions int64             `json:"transitions"`
	Validated   int64             `json:"validated"`
	Counters    map[string]int64  `json:"counters"`
	Violations  []Viol            `json:"violations"`
	Notes       []string          `json:"notes"`
	Samples     []json.RawMessage `json:"samples"`
	Outcomes    []uint64          `json:"outcomes"`
	PkgStates   []uint64          `json:"pkg_states"`
}

type Viol struct {
	Sig  string          `json:"sig"`
	Msg  string          `json:"msg"`
	Case json.RawMessage `json:"case"`
}

// Case is the replayable description of one C20 case.
type Case struct {
	Mode     string `json:"mode"` // purity, history, sched, race
	Entry    int    `json:"entry,omitempty"`
	Name     string `json:"name,omitempty"`
	Variant  int    `json:"variant,omitempty"`
	Seq      []int  `json:"seq,omitempty"`
	Threads  []int  `json:"threads,omitempty"`
	Schedule []int  `json:"schedule,omitempty"` // deviations from the default schedule, flattened (point index, choice) pairs
}

var out = &Out{Counters: map[string]int64{}}
var outcomeSet = map[uint64]bool{}

func (o *Out) fail(sig, msg string, c Case) {
	// one violation per category (input-modified, nondeterministic, shared-write, sched-result, ...);
	// the entries affected are counted per category
	if i := strings.IndexByte(sig, ':'); i >= 0 {
		o.Counters["violating:"+sig]++
		sig = sig[:i]
	}
	for _, v := range o.Violations {
		if v.Sig == sig {
			return
		}
	}
	b, _ := json.Marshal(c)
	o.Violations = append(o.Violations, Viol{sig, msg, b})
}

func (o *Out) sample(c Case) {
	if len(o.Samples) < 3 {
		b, _ := json.Marshal(c)
		o.Samples = append(o.Samples, b)
	}
}

func outcome(b []byte) {
	h := fnv.New64a()
	h.Write(b)
	outcomeSet[h.Sum64()] = true
}

// --- deep state hash -------------------------------------------------------------

// hasher is a running 64-bit FNV-1a style mix (no allocation per value).
type hasher struct{ h uint64 }

func newHasher() *hasher { return &hasher{14695981039346656037} }
func (h *hasher) mix(u uint64) {
	h.h = (h.h ^ u) * 1099511628211
	h.h = (h.h ^ (u >> 32)) * 1099511628211
}
func (h *hasher) str(s string) {
	for i := 0; i < len(s); i++ {
		h.h = (h.h ^ uint64(s[i])) * 1099511628211
	}
	h.mix(uint64(len(s)))
}

func deepHash(h *hasher, v reflect.Value, seen map[uintptr]bool, depth int) {
	if depth > 12 {
		return
	}
	switch v.Kind() {
	case reflect.Bool:
		if v.Bool() {
			h.mix(1)
		} else {
			h.mix(2)
		}
	case reflect.Int, reflect.Int8, reflect.Int16, reflect.Int32, reflect.Int64:
		h.mix(uint64(v.Int()) + 0x9e37)
	case reflect.Uint, reflect.Uint8, reflect.Uint16, reflect.Uint32, reflect.Uint64, reflect.Uintptr:
		h.mix(v.Uint() + 0x79b9)
	case reflect.Float32, reflect.Float64:
		h.mix(math.Float64bits(v.Float()) + 0x7f4a)
	case reflect.Complex64, reflect.Complex128:
		c := v.Complex()
		h.mix(math.Float64bits(real(c)))
		h.mix(math.Float64bits(imag(c)))
	case reflect.String:
		h.str(v.String())
	case reflect.Ptr:
		if v.IsNil() {
			h.mix(0xdead)
			return
		}
		if seen[v.Pointer()] {
			h.mix(0xc1c1)
			return
		}
		seen[v.Pointer()] = true
		h.mix(0xa11d)
		deepHash(h, v.Elem(), seen, depth+1)
	case reflect.Interface:
		if v.IsNil() {
			h.mix(0xdead)
			return
		}
		h.str(v.Elem().Type().String())
		deepHash(h, v.Elem(), seen, depth+1)
	case reflect.Slice:
		if v.IsNil() {
			h.mix(0x5111)
			return
		}
		h.mix(uint64(v.Len())<<32 | uint64(v.Cap()))
		full := v.Slice(0, v.Cap())
		switch full.Type().Elem().Kind() {
		case reflect.Int:
			if full.CanInterface() {
				if s, ok := full.Interface().([]int); ok {
					for _, x := range s {
						h.mix(uint64(x) + 0x9e37)
					}
					return
				}
			}
			for i, n := 0, full.Len(); i < n; i++ {
				h.mix(uint64(full.Index(i).Int()) + 0x9e37)
			}
			return
		case reflect.Float64:
			if full.CanInterface() {
				if s, ok := full.Interface().([]float64); ok {
					for _, x := range s {
						h.mix(math.Float64bits(x) + 0x7f4a)
					}
					return
				}
			}
			for i, n := 0, full.Len(); i < n; i++ {
				h.mix(math.Float64bits(full.Index(i).Float()) + 0x7f4a)
			}
			return
		}
		for i := 0; i < full.Len(); i++ {
			deepHash(h, full.Index(i), seen, depth+1)
		}
	case reflect.Array:
		for i := 0; i < v.Len(); i++ {
			deepHash(h, v.Index(i), seen, depth+1)
		}
	case reflect.Map:
		if v.IsNil() {
			h.mix(0x3a90)
			return
		}
		// order independent: sum of per-entry hashes
		var sum uint64
		for _, k := range v.MapKeys() {
			e := newHasher()
			deepHash(e, k, seen, depth+1)
			deepHash(e, v.MapIndex(k), seen, depth+1)
			sum += e.h
		}
		h.mix(sum)
		h.mix(uint64(v.Len()))
	case reflect.Struct:
		h.mix(0x57)
		for i := 0; i < v.NumField(); i++ {
			deepHash(h, v.Field(i), seen, depth+1)
		}
	case reflect.Func, reflect.Chan, reflect.UnsafePointer:
		if v.IsNil() {
			h.mix(0xdead)
		} else {
			h.mix(0xf00c)
		}
	}
}

// pkgState hashes every registered package-level variable of the library.
func pkgState() uint64 {
	h := newHasher()
	st := verifhook.States()
	pkgs := make([]string, 0, len(st))
	for p := range st {
		pkgs = append(pkgs, p)
	}
	sort.Strings(pkgs)
	for _, p := range pkgs {
		for _, v := range st[p]() {
			h.str(p)
			h.str(v.Name)
			deepHash(h, reflect.ValueOf(v.Ptr), map[uintptr]bool{}, 0)
		}
	}
	return h.h
}

// fixDeep hashes every fixture by reflection, including unexported internals of
// library objects (e.g. lazily built tables), without calling any method.
func fixDeep(f *alpha.Fix) uint64 {
	h := newHasher()
	v := reflect.ValueOf(f).Elem()
	seen := map[uintptr]bool{}
	for i := 0; i < v.NumField(); i++ {
		if v.Type().Field(i).Name == "BigX" {
			// 40000 values that only the heavy entry (excluded from the interleaving pass)
			// touches; hashing them at every scheduling point would dominate the run
			continue
		}
		deepHash(h, v.Field(i), seen, 1)
	}
	return h.h
}

// pkgStateText is the long form, used to name the variable that changed.
func pkgStateText() map[string]string {
	m := map[string]string{}
	for p, f := range verifhook.States() {
		for _, v := range f() {
			h := newHasher()
			deepHash(h, reflect.ValueOf(v.Ptr), map[uintptr]bool{}, 0)
			m[p+"."+v.Name] = fmt.Sprintf("%x", h.h)
		}
	}
	return m
}

func changedVars(a, b map[string]string) []string {
	var out []string
	for k, v := range a {
		if b[k] != v {
			out = append(out, k)
		}
	}
	sort.Strings(out)
	return out
}

// --- sequential modes ----------------------------------------------------------------

func runEntry(i int, f *alpha.Fix) (res []byte, panicked string) {
	defer func() {
		if e := recover(); e != nil {
			panicked = fmt.Sprint(e)
		}
	}()
	return alpha.Entries[i].Run(f), ""
}

func modeFresh(i, variant int) {
	f := alpha.NewFix(variant)
	res, p := runEntry(i, f)
	if p != "" {
		fmt.Println("panic:" + p)
		return
	}
	fmt.Println(hex.EncodeToString(res))
}

func modePurity(shard, nshards, variants int) {
	for v := 0; v < variants; v++ {
		if v%nshards != shard {
			continue
		}
		for i, e := range alpha.Entries {
			f := alpha.NewFix(v)
			snap := f.Snapshot()
			st := pkgState()
			c := Case{Mode: "purity", Entry: i, Name: e.Name, Variant: v}
			out.Evals++
			out.Nontrivial++
			out.sample(c)
			first, p := runEntry(i, f)
			out.Transitions++
			if p != "" {
				out.fail("panic:"+e.Name, fmt.Sprintf("%s panicked on fixture variant %d: %s", e.Name, v, p), c)
				continue
			}
			outcome(first)
			if !bytes.Equal(snap, f.Snapshot()) {
				out.fail("input-modified:"+e.Name, fmt.Sprintf("%s modified a slice, Sample or graph passed to it (fixture variant %d)", e.Name, v), c)
				continue
			}
			if pkgState() != st {
				// Not a violation by itself (a correctly keyed, synchronised cache is
				// allowed): it is what makes the history and schedule passes matter.
				out.Counters["calls_that_changed_package_state"]++
			}
			// repeated calls with equal arguments: bit-identical
			for rep := 0; rep < 8; rep++ {
				again, p := runEntry(i, f)
				out.Transitions++
				if p != "" || !bytes.Equal(first, again) {
					out.fail("nondeterministic:"+e.Name, fmt.Sprintf("%s returned different results on repetition %d with equal arguments (fixture variant %d): %s vs %s %s", e.Name, rep+2, v, alpha.Describe(first), alpha.Describe(again), p), c)
					break
				}
			}
			// and on an equal, separately built fixture
			g := alpha.NewFix(v)
			if other, _ := runEntry(i, g); !bytes.Equal(first, other) {
				out.fail("nondeterministic:"+e.Name, fmt.Sprintf("%s returned different results on two equal fixtures (variant %d)", e.Name, v), c)
			}
			mapOrders(i, v, first, c)
		}
	}
}

// mapOrders re-runs entry i under every map-iteration order mode: the order in
// which a range over a map visits its keys is decided by the harness in the
// instrumented copy, and the result must not depend on it.
func mapOrders(i, v int, first []byte, c Case) {
	e := alpha.Entries[i]
	before := verifhook.MapRangesRun
	runEntry(i, alpha.NewFix(v))
	if verifhook.MapRangesRun == before {
		return // this call never iterates over a map
	}
	out.Counters["calls_iterating_over_a_map"]++
	defer atomic.StoreInt32(&verifhook.MapMode, 0)
	for mode := int32(1); mode < 6; mode++ {
		atomic.StoreInt32(&verifhook.MapMode, mode)
		res, p := runEntry(i, alpha.NewFix(v))
		out.Transitions++
		out.Counters["map_order_runs"]++
		if p != "" {
			out.fail("map-order:"+e.Name, fmt.Sprintf("%s panicked under map iteration order %d (fixture variant %d): %s", e.Name, mode, v, p), c)
			return
		}
		if !bytes.Equal(first, res) {
			out.fail("map-order:"+e.Name, fmt.Sprintf("%s depends on the iteration order of a map: order mode %d gives %s, canonical order gives %s (fixture variant %d)", e.Name, mode, alpha.Describe(res), alpha.Describe(first), v), c)
			return
		}
	}
}

// modeHistory runs every call sequence of the given depth; every call of
// every sequence must return the result it returns in a fresh process.
func modeHistory(depth, shard, nshards int, fresh [][]byte) {
	n := len(alpha.Entries)
	f := alpha.NewFix(0)
	snap := f.Snapshot()
	states := map[uint64]bool{pkgState(): true}
	seq := make([]int, depth)
	idx := 0
	var rec func(d int)
	rec = func(d int) {
		if d == depth {
			if idx%nshards == shard {
				out.Evals++
				c := Case{Mode: "history", Seq: append([]int{}, seq...)}
				out.sample(c)
				if depth > 1 {
					out.Nontrivial++
				}
				for _, e := range seq {
					res, p := runEntry(e, f)
					out.Transitions++
					if p != "" {
						out.fail("panic:"+alpha.Entries[e].Name, fmt.Sprintf("%s panicked in history %v: %s", alpha.Entries[e].Name, seq, p), c)
						continue
					}
					if !bytes.Equal(res, fresh[e]) {
						out.fail("history-dependent:"+alpha.Entries[e].Name, fmt.Sprintf("%s returned %s after the calls %v, but %s in a fresh process", alpha.Entries[e].Name, alpha.Describe(res), names(seq), alpha.Describe(fresh[e])), c)
					}
					out.Validated++
				}
				states[pkgState()] = true
			}
			idx++
			return
		}
		for e := 0; e < n; e++ {
			seq[d] = e
			rec(d + 1)
		}
	}
	rec(0)
	if !bytes.Equal(snap, f.Snapshot()) {
		out.fail("input-modified:history", "the shared fixtures changed during the call histories", Case{Mode: "history"})
	}
	for h := range states {
		out.PkgStates = append(out.PkgStates, h)
	}
}

func names(seq []int) []string {
	var s []string
	for _, e := range seq {
		s = append(s, alpha.Entries[e].Name)
	}
	return s
}

// modeVarHist: the same entry on two different fixture variants in a row (every
// ordered pair of variants): the second call must return what it returns in a
// fresh process. This is the history a cache keyed too coarsely gets wrong.
func modeVarHist(shard, nshards int, fresh [][]string) {
	V := len(fresh[0])
	idx := 0
	for e := range alpha.Entries {
		for v1 := 0; v1 < V; v1++ {
			for v2 := 0; v2 < V; v2++ {
				if idx%nshards != shard {
					idx++
					continue
				}
				idx++
				out.Evals++
				out.Nontrivial++
				c := Case{Mode: "varhist", Entry: e, Name: alpha.Entries[e].Name, Seq: []int{v1, v2}}
				runEntry(e, alpha.NewFix(v1))
				res, p := runEntry(e, alpha.NewFix(v2))
				out.Transitions += 2
				want, _ := hex.DecodeString(fresh[e][v2])
				if p != "" {
					if fresh[e][v2] != "panic:"+p {
						out.fail("panic:"+alpha.Entries[e].Name, fmt.Sprintf("%s panicked on fixture variant %d after a call on variant %d: %s", alpha.Entries[e].Name, v2, v1, p), c)
					}
					continue
				}
				if !bytes.Equal(res, want) {
					out.fail("history-dependent:"+alpha.Entries[e].Name, fmt.Sprintf("%s on fixture variant %d returned %s after a call on variant %d, but %s in a fresh process", alpha.Entries[e].Name, v2, alpha.Describe(res), v1, alpha.Describe(want)), c)
				}
				out.Validated++
			}
		}
	}
}

// --- cooperative scheduler ----------------------------------------------------------

type point struct {
	enabled []int // canonical order: running first (if still enabled), then ascending ids
	running bool  // the running thread is still enabled at this point
	chosen  int   // index into enabled
	id      int   // scheduling point id (-1: thread start/exit)
}

type exec struct {
	threads []int // entry index per thread
	devs    []int // deviations from the default (choice 0) schedule: flattened (point index, choice) pairs, ascending
	devPos  int
	points  []point
	wake    []chan struct{}
	done    []bool
	cur     int
	results [][]byte
	panics  []string
	fin     chan struct{}
	// monitor
	monitor    bool
	lastState  uint64
	lastFix    []byte
	lastDeep   uint64
	fix        *alpha.Fix
	writes     []string
	divergence string
	inHarness  bool
	blocked    []func() bool // per thread: the condition it waits for (vsync shim)
	deadlock   bool
	finOnce    bool
}

var cur *exec

func (x *exec) isEnabled(t int) bool {
	if x.done[t] {
		return false
	}
	if c := x.blocked[t]; c != nil {
		x.inHarness = true
		ok := c()
		x.inHarness = false
		return ok
	}
	return true
}

func (x *exec) enabledFrom(running int) ([]int, bool) {
	var en []int
	isEn := running >= 0 && x.isEnabled(running)
	if isEn {
		en = append(en, running)
	}
	for t := range x.done {
		if t != running && x.isEnabled(t) {
			en = append(en, t)
		}
	}
	return en, isEn
}

func (x *exec) finish() {
	if !x.finOnce {
		x.finOnce = true
		close(x.fin)
	}
}

// block parks the running thread until cond holds (called by the vsync shim).
func (x *exec) block(cond func() bool) {
	me := x.cur
	for !cond() {
		x.blocked[me] = cond
		next := x.decide(me, -2)
		if next < 0 {
			// every live thread waits for a condition nobody can make true
			x.deadlock = true
			x.finish()
			select {}
		}
		x.cur = next
		x.wake[next] <- struct{}{}
		<-x.wake[me]
		x.blocked[me] = nil
	}
}

// decide records a scheduling point and returns the thread to run next.
func (x *exec) decide(running, id int) int {
	en, isEn := x.enabledFrom(running)
	if len(en) == 0 {
		return -1
	}
	i := len(x.points)
	ch := 0
	if x.devPos < len(x.devs) && x.devs[x.devPos] == i {
		ch = x.devs[x.devPos+1]
		x.devPos += 2
		if ch >= len(en) {
			x.divergence = fmt.Sprintf("replayed choice %d at point %d is out of range (only %d enabled)", ch, i, len(en))
			ch = 0
		}
	}
	x.points = append(x.points, point{en, isEn, ch, id})
	return en[ch]
}

func (x *exec) hook(id int) {
	if x.inHarness {
		// the harness' own snapshot code calls instrumented accessors
		// (Counts, Out, In): those points are not part of the execution
		return
	}
	me := x.cur
	if x.monitor {
		x.inHarness = true
		st, fx, dp := pkgState(), x.fix.Snapshot(), fixDeep(x.fix)
		x.inHarness = false
		if st != x.lastState || !bytes.Equal(fx, x.lastFix) || dp != x.lastDeep {
			x.writes = append(x.writes, fmt.Sprintf("thread %d (%s) before point %d", me, alpha.Entries[x.threads[me]].Name, id))
			x.lastState, x.lastFix, x.lastDeep = st, fx, dp
		}
	}
	next := x.decide(me, id)
	if next != me {
		x.cur = next
		x.wake[next] <- struct{}{}
		<-x.wake[me]
	}
}

func run(threads, devs []int, fix *alpha.Fix, monitor bool) *exec {
	fix.LightSnapshots = true // the heavy entry is not part of any interleaving run

	n := len(threads)
	x := &exec{threads: threads, devs: devs, wake: make([]chan struct{}, n), done: make([]bool, n),
		results: make([][]byte, n), panics: make([]string, n), fin: make(chan struct{}), monitor: monitor, fix: fix, blocked: make([]func() bool, n)}
	if monitor {
		x.lastState, x.lastFix, x.lastDeep = pkgState(), fix.Snapshot(), fixDeep(fix)
	}
	cur = x
	for t := 0; t < n; t++ {
		x.wake[t] = make(chan struct{})
		go func(t int) {
			<-x.wake[t]
			func() {
				defer func() {
					if e := recover(); e != nil {
						x.panics[t] = fmt.Sprint(e)
					}
				}()
				x.results[t] = alpha.Entries[threads[t]].Run(fix)
			}()
			// thread exit is a scheduling point for the others
			x.done[t] = true
			if x.monitor {
				x.inHarness = true
				st, fx, dp := pkgState(), x.fix.Snapshot(), fixDeep(x.fix)
				x.inHarness = false
				if st != x.lastState || !bytes.Equal(fx, x.lastFix) || dp != x.lastDeep {
					x.writes = append(x.writes, fmt.Sprintf("thread %d (%s) before it returned", t, alpha.Entries[threads[t]].Name))
					x.lastState, x.lastFix, x.lastDeep = st, fx, dp
				}
			}
			next := x.decide(t, -1)
			if next < 0 {
				for u := range x.done {
					if !x.done[u] {
						x.deadlock = true // live threads remain but none can run
					}
				}
				x.finish()
				return
			}
			x.cur = next
			x.wake[next] <- struct{}{}
		}(t)
	}
	verifhook.Hook = func(id int) { cur.hook(id) }
	verifhook.BlockHook = func(c func() bool) { cur.block(c) }
	first := x.decide(-1, -1)
	x.cur = first
	atomic.StoreInt32(&verifhook.Active, 1)
	x.wake[first] <- struct{}{}
	<-x.fin
	atomic.StoreInt32(&verifhook.Active, 0)
	return x
}

// choices returns the schedule actually taken as deviations from the default.
func (x *exec) choices() []int {
	var d []int
	for i, p := range x.points {
		if p.chosen != 0 {
			d = append(d, i, p.chosen)
		}
	}
	return d
}

var lastBeat = time.Now()

// heartbeat tells the driver (on stderr) that the exploration is advancing: every
// exploration is bounded by its step budget, so a beating process terminates.
func heartbeat() {
	if time.Since(lastBeat) > 5*time.Second {
		lastBeat = time.Now()
		fmt.Fprintln(os.Stderr, "HB")
	}
}

// explore enumerates every schedule of the given threads with at most bound
// preemptions (iterative context bounding); check is called for every
// execution. A schedule is a list of deviations from the default schedule, so
// the memory held is O(bound), and every deviation-free suffix is the
// canonical "keep running the same thread, then ascending ids" order.
func explore(threads []int, bound int, maxSteps int64, shard, nshards int, check func(x *exec)) (execs int64, capped bool) {
	var steps int64
	// An execution belongs to shard 0 if its schedule contains no preemption and
	// otherwise to the shard (index of its first preemption) mod nshards.
	// Preemption-free executions are run by every shard (they are needed to
	// discover the points below them) but checked and counted by shard 0 only.
	var rec func(devs []int, from int, preempted bool)
	rec = func(devs []int, from int, preempted bool) {
		if capped {
			return
		}
		x := run(threads, devs, alpha.NewFix(0), false)
		if preempted || shard == 0 {
			execs++
			check(x)
		}
		steps += int64(len(x.points))
		heartbeat()
		if maxSteps > 0 && steps >= maxSteps {
			capped = true
			return
		}
		if x.devPos != len(devs) {
			return // a deviation was never reached: nothing below it
		}
		pts := x.points
		pre := 0
		for i, p := range pts {
			if i >= from {
				for alt := 1; alt < len(p.enabled); alt++ {
					cost := pre
					if p.running {
						cost++
					}
					if cost > bound {
						continue
					}
					if p.running && !preempted && i%nshards != shard {
						continue // first preemption of this schedule: another shard's subtree
					}
					nd := append(append(make([]int, 0, len(devs)+2), devs...), i, alt)
					rec(nd, i+1, preempted || p.running)
					if capped {
						return
					}
				}
			}
			if p.running && p.chosen != 0 {
				pre++
			}
		}
	}
	rec(nil, 0, false)
	return execs, capped
}

func modeSched(bound, nthreads, shard, nshards int, mode string, fresh [][]byte) {
	stepBudget := int64(3e7)
	if v, err := strconv.ParseInt(os.Getenv("C20_STEP_BUDGET"), 10, 64); err == nil {
		stepBudget = v
	}
	n := len(alpha.Entries)
	var combos [][]int
	exploreClean := true // explore interleavings even when the monitor saw no shared write
	switch mode {
	case "ff": // the same call from every thread
		for a := 0; a < n; a++ {
			if alpha.Heavy[alpha.Entries[a].Name] {
				continue
			}
			th := make([]int, nthreads)
			for i := range th {
				th[i] = a
			}
			combos = append(combos, th)
		}
	case "all", "allx": // every unordered pair of different entries
		for a := 0; a < n; a++ {
			for b := a + 1; b < n; b++ {
				if alpha.Heavy[alpha.Entries[a].Name] || alpha.Heavy[alpha.Entries[b].Name] {
					continue
				}
				combos = append(combos, []int{a, b})
			}
		}
		exploreClean = mode == "allx"
	}
	for ci, th := range combos {
		owner := ci%nshards == shard
		if !owner && !exploreClean {
			continue
		}
		c := Case{Mode: "sched", Threads: th}
		if !owner {
			// explored combinations are split across all shards by their first preemption
			execs, capped := exploreCombo(th, bound, stepBudget, shard, nshards, fresh)
			out.States += execs
			out.Validated += execs
			if capped {
				out.Counters["capped"]++
				out.Notes = append(out.Notes, fmt.Sprintf("exploration of %v stopped at the step budget in shard %d after %d executions (bound %d not completed for this combination)", names(th), shard, execs, bound))
			}
			continue
		}
		out.Evals++
		out.Nontrivial++
		out.sample(c)
		// sequential orders with the write monitor at every scheduling point
		writes := 0
		for order := 0; order < 2; order++ {
			fix := alpha.NewFix(0)
			var devs []int
			if order == 1 {
				devs = []int{0, len(th) - 1} // start with the last thread
			}
			x := run(th, devs, fix, true)
			out.Counters["points_monitored"] += int64(len(x.points))
			writes += len(x.writes)
			if len(x.writes) > 0 && os.Getenv("C20_SYNCFREE") != "0" {
				out.fail("shared-write:"+alpha.Entries[th[0]].Name, fmt.Sprintf("running %v concurrently: a read-only call wrote shared state (package-level variable or shared input) at %v; the library uses no synchronisation, so two concurrent callers race on it", names(th), x.writes[:1]), Case{Mode: "sched", Threads: th, Schedule: x.choices()})
			}
		}
		out.Counters["shared_writes"] += int64(writes)
		if writes == 0 && !exploreClean {
			// No step of any thread writes shared state (package-level variables or the
			// shared inputs), and everything else a step touches is goroutine-local, so
			// every step commutes with every step of the other threads: all interleavings
			// are equivalent to the sequential orders just executed.
			out.Counters["combos_discharged_by_commutativity"]++
			out.States += 2
			out.Validated += 2
			continue
		}
		out.Counters["combos_explored"]++
		var execs int64
		var capped bool
		if exploreClean {
			execs, capped = exploreCombo(th, bound, stepBudget, shard, nshards, fresh)
		} else {
			// not split across shards (only the owner explores), so with a smaller budget
			execs, capped = exploreCombo(th, bound, stepBudget/25, 0, 1, fresh)
		}
		out.States += execs
		out.Validated += execs
		if capped {
			out.Notes = append(out.Notes, fmt.Sprintf("exploration of %v stopped at the step budget in shard %d after %d executions (bound %d not completed for this combination)", names(th), shard, execs, bound))
			out.Counters["capped"]++
		}
		// replay determinism: the default schedule twice, identical observations
		a := run(th, nil, alpha.NewFix(0), false)
		b := run(th, a.choices(), alpha.NewFix(0), false)
		if len(a.points) != len(b.points) || !reflect.DeepEqual(a.results, b.results) {
			out.fail("harness-nondeterministic-replay", fmt.Sprintf("replaying the same schedule of %v gave different observations (%d vs %d points)", names(th), len(a.points), len(b.points)), c)
		}
	}
}

// exploreCombo explores this shard's part of the schedules of one thread
// combination and checks every execution against the sequential results.
func exploreCombo(th []int, bound int, stepBudget int64, shard, nshards int, fresh [][]byte) (int64, bool) {
	return explore(th, bound, stepBudget, shard, nshards, func(x *exec) {
		out.Transitions += int64(len(x.points))
		if x.deadlock {
			out.fail("deadlock:"+alpha.Entries[th[0]].Name, fmt.Sprintf("running %v concurrently deadlocks under schedule %v: every live goroutine waits for a lock or Once that no runnable goroutine can release", names(th), compress(x.choices())), Case{Mode: "sched", Threads: th, Schedule: x.choices()})
			return
		}
		if x.divergence != "" {
			out.fail("harness-divergence", x.divergence, Case{Mode: "sched", Threads: th, Schedule: x.devs})
			return
		}
		var key []byte
		for t, e := range th {
			if x.panics[t] != "" {
				out.fail("sched-panic:"+alpha.Entries[e].Name, fmt.Sprintf("%s panicked when interleaved with %v: %s", alpha.Entries[e].Name, names(th), x.panics[t]), Case{Mode: "sched", Threads: th, Schedule: x.choices()})
				continue
			}
			key = append(key, x.results[t]...)
			if !bytes.Equal(x.results[t], fresh[e]) {
				out.fail("sched-result:"+alpha.Entries[e].Name, fmt.Sprintf("%s returned %s when interleaved with %v under schedule %v; sequentially it returns %s", alpha.Entries[e].Name, alpha.Describe(x.results[t]), names(th), compress(x.choices()), alpha.Describe(fresh[e])), Case{Mode: "sched", Threads: th, Schedule: x.choices()})
			}
		}
		outcome(key)
	})
}

func compress(devs []int) string {
	var parts []string
	for i := 0; i+1 < len(devs); i += 2 {
		parts = append(parts, fmt.Sprintf("at point %d run thread #%d of the enabled list", devs[i], devs[i+1]))
	}
	return "[" + strings.Join(parts, "; ") + "]"
}

func modeReplay(js string, fresh [][]byte) {
	var c Case
	if err := json.Unmarshal([]byte(js), &c); err != nil {
		fmt.Fprintln(os.Stderr, err)
		os.Exit(2)
	}
	switch c.Mode {
	case "purity":
		// one entry on one variant
		save := alpha.Entries
		_ = save
		f := alpha.NewFix(c.Variant)
		snap, st := f.Snapshot(), pkgState()
		before := pkgStateText()
		first, p := runEntry(c.Entry, f)
		e := alpha.Entries[c.Entry]
		if p != "" {
			out.fail("panic:"+e.Name, p, c)
		}
		if !bytes.Equal(snap, f.Snapshot()) {
			out.fail("input-modified:"+e.Name, "input modified", c)
		}
		if pkgState() != st {
			out.Notes = append(out.Notes, fmt.Sprintf("package state changed: %v", changedVars(before, pkgStateText())))
		}
		for rep := 0; rep < 8; rep++ {
			if again, _ := runEntry(c.Entry, f); !bytes.Equal(first, again) {
				out.fail("nondeterministic:"+e.Name, "different result on repetition", c)
			}
		}
		mapOrders(c.Entry, c.Variant, first, c)
	case "varhist":
		runEntry(c.Entry, alpha.NewFix(c.Seq[0]))
		a, _ := runEntry(c.Entry, alpha.NewFix(c.Seq[1]))
		// the reference: the same call in this process before anything else was asked is not
		// available any more, so compare with the value recorded by a fresh process
		out2, err := osexec.Command(os.Args[0], "fresh", strconv.Itoa(c.Entry), strconv.Itoa(c.Seq[1])).Output()
		if err == nil {
			want, _ := hex.DecodeString(strings.TrimSpace(string(out2)))
			if !bytes.Equal(a, want) {
				out.fail("history-dependent:"+alpha.Entries[c.Entry].Name, "differs from the fresh-process result", c)
			}
		}
	case "history":
		f := alpha.NewFix(0)
		for _, e := range c.Seq {
			res, p := runEntry(e, f)
			if p != "" {
				out.fail("panic:"+alpha.Entries[e].Name, p, c)
			} else if !bytes.Equal(res, fresh[e]) {
				out.fail("history-dependent:"+alpha.Entries[e].Name, "differs from the fresh-process result", c)
			}
		}
	case "sched":
		x := run(c.Threads, c.Schedule, alpha.NewFix(0), true)
		if len(x.writes) > 0 && os.Getenv("C20_SYNCFREE") != "0" {
			out.fail("shared-write:"+alpha.Entries[c.Threads[0]].Name, fmt.Sprint(x.writes), c)
		}
		if x.deadlock {
			out.fail("deadlock:"+alpha.Entries[c.Threads[0]].Name, "deadlock", c)
		}
		for t, e := range c.Threads {
			if x.panics[t] != "" {
				out.fail("sched-panic:"+alpha.Entries[e].Name, x.panics[t], c)
			} else if !bytes.Equal(x.results[t], fresh[e]) {
				out.fail("sched-result:"+alpha.Entries[e].Name, "differs from the sequential result", c)
			}
		}
	}
}

func main() {
	if len(os.Args) < 2 {
		os.Exit(2)
	}
	atoi := func(s string) int { v, _ := strconv.Atoi(s); return v }
	var fresh [][]byte
	loadFresh := func() {
		b, err := os.ReadFile(os.Getenv("C20_FRESH"))
		if err != nil {
			fmt.Fprintln(os.Stderr, "C20_FRESH:", err)
			os.Exit(2)
		}
		var hs []string
		json.Unmarshal(b, &hs)
		for _, h := range hs {
			d, _ := hex.DecodeString(h)
			fresh = append(fresh, d)
		}
	}
	switch os.Args[1] {
	case "fresh":
		v := 0
		if len(os.Args) > 3 {
			v = atoi(os.Args[3])
		}
		modeFresh(atoi(os.Args[2]), v)
		return
	case "varhist":
		loadFresh()
		b, err := os.ReadFile(os.Getenv("C20_FRESHVAR"))
		if err != nil {
			fmt.Fprintln(os.Stderr, "C20_FRESHVAR:", err)
			os.Exit(2)
		}
		var fv [][]string
		json.Unmarshal(b, &fv)
		modeVarHist(atoi(os.Args[2]), atoi(os.Args[3]), fv)
	case "count":
		fmt.Println(len(alpha.Entries))
		return
	case "names":
		b, _ := json.Marshal(alpha.Names())
		fmt.Println(string(b))
		return
	case "purity":
		modePurity(atoi(os.Args[2]), atoi(os.Args[3]), atoi(os.Args[4]))
	case "history":
		loadFresh()
		modeHistory(atoi(os.Args[2]), atoi(os.Args[3]), atoi(os.Args[4]), fresh)
	case "sched":
		loadFresh()
		modeSched(atoi(os.Args[2]), atoi(os.Args[3]), atoi(os.Args[4]), atoi(os.Args[5]), os.Args[6], fresh)
	case "replay":
		loadFresh()
		modeReplay(os.Args[2], fresh)
	default:
		os.Exit(2)
	}
	for h := range outcomeSet {
		out.Outcomes = append(out.Outcomes, h)
	}
	b, _ := json.Marshal(out)
	fmt.Println(string(b))
}
