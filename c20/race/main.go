// Command race is the free-running pass of C20: G goroutines issue every call
// of the alphabet on the same shared fixtures, with no scheduler in the way
// (a cooperative scheduler's hand-offs are happens-before edges that would
// blind the race detector). It is built from the plain /repo tree with -race.
//
//	race <goroutines> <rounds>
package main

import (
	"bytes"
	"fmt"
	"os"
	"strconv"
	"sync"

	"verif/c20/alpha"
)

func main() {
	g, _ := strconv.Atoi(os.Args[1])
	rounds, _ := strconv.Atoi(os.Args[2])
	fix := alpha.NewFix(0)
	snap := fix.Snapshot()
	// sequential reference
	ref := make([][]byte, len(alpha.Entries))
	for i, e := range alpha.Entries {
		ref[i] = e.Run(fix)
	}
	var mu sync.Mutex
	var mismatches []string
	var wg sync.WaitGroup
	start := make(chan struct{})
	for t := 0; t < g; t++ {
		wg.Add(1)
		go func(t int) {
			defer wg.Done()
			<-start
			for r := 0; r < rounds; r++ {
				for k := range alpha.Entries {
					i := (k*7 + t*3 + r) % len(alpha.Entries) // different goroutines, different call orders
					res := alpha.Entries[i].Run(fix)
					if !bytes.Equal(res, ref[i]) {
						mu.Lock()
						if len(mismatches) < 5 {
							mismatches = append(mismatches, fmt.Sprintf("%s: concurrent result %s, sequential %s", alpha.Entries[i].Name, alpha.Describe(res), alpha.Describe(ref[i])))
						}
						mu.Unlock()
					}
				}
			}
		}(t)
	}
	close(start)
	wg.Wait()
	if !bytes.Equal(snap, fix.Snapshot()) {
		mismatches = append(mismatches, "shared fixtures were modified")
	}
	for _, m := range mismatches {
		fmt.Println("MISMATCH", m)
	}
	fmt.Printf("CALLS %d\n", g*rounds*len(alpha.Entries))
	if len(mismatches) > 0 {
		os.Exit(1)
	}
}
