// Package alpha is the call alphabet of the C20 checks: every exported
// function/method of the library that takes a slice, Sample, graph or
// distribution, each as one Entry that runs the call on shared read-only
// fixtures and returns a canonical byte encoding of its results.
//
// It imports only the library, so the same table serves the instrumented
// scheduler harness, the sequential purity/determinism checks and the
// free-running -race pass.
package alpha

import (
	"encoding/binary"
	"fmt"
	"math"
	"math/rand"
	"sort"

	"github.com/aclements/go-moremath/fit"
	"github.com/aclements/go-moremath/graph"
	"github.com/aclements/go-moremath/graph/graphalg"
	"github.com/aclements/go-moremath/graph/graphout"
	"github.com/aclements/go-moremath/mathx"
	"github.com/aclements/go-moremath/scale"
	"github.com/aclements/go-moremath/stats"
	"github.com/aclements/go-moremath/vec"
)

// Enc is a canonical result encoder (bit patterns, not printed forms).
type Enc struct{ b []byte }

func (e *Enc) F(xs ...float64) *Enc {
	for _, x := range xs {
		e.b = binary.LittleEndian.AppendUint64(e.b, math.Float64bits(x))
	}
	return e
}
func (e *Enc) I(xs ...int) *Enc {
	for _, x := range xs {
		e.b = binary.LittleEndian.AppendUint64(e.b, uint64(int64(x)))
	}
	return e
}
func (e *Enc) Fs(xs []float64) *Enc {
	e.I(len(xs))
	if xs == nil {
		e.I(-1)
	}
	return e.F(xs...)
}
func (e *Enc) Is(xs []int) *Enc {
	e.I(len(xs))
	if xs == nil {
		e.I(-1)
	}
	return e.I(xs...)
}
func (e *Enc) S(s string) *Enc { e.I(len(s)); e.b = append(e.b, s...); return e }
func (e *Enc) B(b bool) *Enc {
	if b {
		return e.I(1)
	}
	return e.I(0)
}
func (e *Enc) Err(err error) *Enc {
	if err == nil {
		return e.S("<nil>")
	}
	return e.S(err.Error())
}
func (e *Enc) Bytes() []byte { return e.b }

// Fix is one set of shared fixtures: unsorted data containing ties, so that
// any internal sort or reordering is visible.
type Fix struct {
	X1, X2, X3, W1 []float64
	Y1             []float64
	S1, SW, SS     stats.Sample // unsorted; weighted unsorted; sorted+flag
	G1, G2, G3     graph.IntGraph
	BG             graph.BiGraph
	Nodes          []int
	Edges          []graph.Edge
	UD             stats.UDist
	KDE            *stats.KDE
	Hist           *stats.LinearHist
	Ints           []int
	IDom           []int
	Lin            scale.Linear
	LinRev         scale.Linear // decreasing domain (Min > Max)
	Log            scale.Log
	Strings        []string
	// BG2 is a BiGraph that no harness code ever touches (not even Snapshot), so
	// that any lazily built internal state is first built by the calls under test.
	BG2 graph.BiGraph
	// Big is a path-like graph with 1040 nodes (ids cross the 1024 growth boundary).
	Big graph.IntGraph
	// LoessF is ONE fitted function shared by all callers.
	LoessF func(float64) float64
	// LH is a LogHist with samples in several bins, under and over.
	LH *stats.LogHist
	// BigX holds 40000 values whose partial sums are inexact (every summation order gives
	// another last bit); Snapshot covers it by a hash.
	BigX []float64
	// LightSnapshots makes Snapshot skip BigX (set by the interleaving pass, whose
	// entries never touch it and which snapshots at every scheduling point).
	LightSnapshots bool
	// ST is a shared accumulator that calls only pass as the ARGUMENT of Combine (its
	// receiver is always a private copy); it holds more samples than the receivers.
	ST stats.StreamStats
	all    []*[]float64
}

func spare(x []float64) []float64 {
	y := make([]float64, len(x), len(x)+2)
	copy(y, x)
	y = y[:cap(y)]
	for i := len(x); i < len(y); i++ {
		y[i] = -9999.5
	}
	return y[:len(x)]
}

var bigCache = map[int][]float64{}

// bigBase returns the (cached, never handed out) 40000 values of variant v.
func bigBase(v int) []float64 {
	if b := bigCache[v]; b != nil {
		return b
	}
	b := make([]float64, 40000)
	for i := range b {
		b[i] = 0.1*float64((i*7919)%1000) + 1e-3*float64(i%7) + float64(v)
	}
	bigCache[v] = b
	return b
}

// NewFix builds fixture variant v (v = 0 is the main one; others permute and
// resize the data).
func NewFix(v int) *Fix {
	base1 := []float64{3, 1, 2, 2, 5, 0.5, 2}
	base2 := []float64{4, 2, 2, 6, 1, 7}
	n1 := 3 + v%5
	n2 := 2 + (v/5)%5
	rot := v / 25
	x1 := make([]float64, n1)
	x2 := make([]float64, n2)
	for i := range x1 {
		x1[i] = base1[(i+rot)%len(base1)]
	}
	for i := range x2 {
		x2[i] = base2[(i+2*rot)%len(base2)]
	}
	w1 := make([]float64, n1)
	y1 := make([]float64, n1)
	x3 := make([]float64, n1) // distinct x for fits
	for i := range w1 {
		w1[i] = float64((i+rot)%3 + 1)
		y1[i] = float64((i*i+rot)%5) - 1.5
		x3[i] = float64((i*3+1)%n1) - 0.25*float64(i)
	}
	f := &Fix{X1: spare(x1), X2: spare(x2), X3: spare(x3), W1: spare(w1), Y1: spare(y1)}
	f.S1 = stats.Sample{Xs: f.X1}
	for _, x := range append(append([]float64{}, base2...), x1...) {
		f.ST.Add(x)
	}
	f.LH = stats.NewLogHist(2, 2, 64)
	for _, x := range []float64{0.5, 1, 1.5, 3, 3, 7, 20, 20, 21, 50, 63, 100, 1000} {
		f.LH.Add(x * float64(1+v%2))
	}
	f.BigX = append([]float64{}, bigBase(v)...)
	f.SW = stats.Sample{Xs: f.X1, Weights: f.W1}
	sorted := append([]float64{}, x1...)
	sort.Float64s(sorted)
	f.SS = stats.Sample{Xs: spare(sorted), Sorted: true}
	f.G1 = graph.IntGraph{{2, 1, 1}, {3, 0}, {1, 2, 3}, {}, {0, 4}}
	f.G2 = graph.IntGraph{{1, 2, 1}, {0, 3}, {3, 2, 1}, {}, {4, 0}}
	f.G3 = graph.IntGraph{{1}, {2, 0}, {0}, {2}}
	if v%2 == 1 {
		f.G1, f.G2 = f.G2, f.G1
	}
	f.BG = graph.MakeBiGraph(graph.IntGraph{{2, 1}, {3, 0}, {1, 3}, {}, {0}})
	f.Nodes = []int{2, 0, 1}
	f.Edges = []graph.Edge{{Node: 2, Edge: 0}, {Node: 0, Edge: 1}, {Node: 1, Edge: 1}}
	f.UD = stats.UDist{N1: 3, N2: 4, T: []int{2, 1, 3, 1}}
	f.KDE = &stats.KDE{Sample: stats.Sample{Xs: f.X2}, Kernel: stats.GaussianKernel, Bandwidth: 0.75}
	f.Hist = stats.NewLinearHist(0, 8, 4)
	for _, x := range x1 {
		f.Hist.Add(x)
	}
	f.Ints = []int{3, 1, 2}
	f.IDom = graphalg.IDom(f.BG, 0)
	f.Lin = scale.Linear{Min: 0.3, Max: 7.2}
	f.LinRev = scale.Linear{Min: 7.2, Max: 0.3, Base: 10}
	f.Log, _ = scale.NewLog(0.5, 700, 10)
	f.Strings = []string{"a\"b", "x\\y\n"}
	f.BG2 = graph.MakeBiGraph(graph.IntGraph{{1, 2}, {3}, {3, 1}, {0, 4}, {}})
	big := make(graph.IntGraph, 1040)
	for i := range big {
		if i+1 < len(big) {
			big[i] = append(big[i], i+1)
		}
		if i%97 == 5 {
			big[i] = append(big[i], i/2, i)
		}
	}
	f.Big = big
	f.LoessF = fit.LOESS(append([]float64{}, f.X3...), append([]float64{}, f.Y1...), 1, 1)
	return f
}

// Snapshot is a deep bitwise image of every fixture, slices to capacity.
func (f *Fix) Snapshot() []byte {
	e := &Enc{}
	full := func(x []float64) { e.I(len(x), cap(x)).F(x[:cap(x)]...) }
	for _, x := range [][]float64{f.X1, f.X2, f.X3, f.W1, f.Y1, f.SS.Xs, f.S1.Xs, f.SW.Xs, f.SW.Weights, f.KDE.Sample.Xs} {
		full(x)
	}
	e.B(f.S1.Sorted).B(f.SW.Sorted).B(f.SS.Sorted)
	for _, g := range []graph.IntGraph{f.G1, f.G2, f.G3} {
		e.I(len(g))
		for _, a := range g {
			e.I(len(a), cap(a)).I(a[:cap(a)]...)
		}
	}
	for i := 0; i < f.BG.NumNodes(); i++ {
		e.Is(f.BG.Out(i)).Is(f.BG.In(i))
	}
	e.Is(f.Nodes).Is(f.Ints).Is(f.IDom)
	for _, ed := range f.Edges {
		e.I(ed.Node, ed.Edge)
	}
	e.I(f.UD.N1, f.UD.N2).Is(f.UD.T)
	e.F(f.KDE.Bandwidth, f.KDE.BoundaryMin, f.KDE.BoundaryMax).I(int(f.KDE.Kernel))
	u, b, o := f.Hist.Counts()
	e.I(int(u), int(o))
	for _, c := range b {
		e.I(int(c))
	}
	e.F(f.Lin.Min, f.Lin.Max, f.Log.Min, f.Log.Max).B(f.Lin.Clamp).B(f.Log.Clamp)
	e.F(f.LinRev.Min, f.LinRev.Max).I(f.LinRev.Base).B(f.LinRev.Clamp)
	e.I(int(f.ST.Count)).F(f.ST.Total, f.ST.Min, f.ST.Max, f.ST.Mean(), f.ST.Variance())
	lu, lb, lo := f.LH.Counts()
	e.I(int(lu), int(lo))
	for _, c := range lb {
		e.I(int(c))
	}
	if !f.LightSnapshots {
		h := uint64(14695981039346656037)
		for _, x := range f.BigX {
			h = (h ^ math.Float64bits(x)) * 1099511628211
		}
		e.I(len(f.BigX), cap(f.BigX), int(h>>1))
	}
	return e.Bytes()
}

// Entry is one call of the alphabet.
type Entry struct {
	Name string // the exported function or method exercised
	Run  func(f *Fix) []byte
	// Pkg is the library package the call lives in (for pair selection).
	Pkg string
}

// Heavy names the entries with tens of thousands of scheduling points: they take part
// in the purity, history and -race passes but not in the interleaving exploration.
var Heavy = map[string]bool{"vec.Sum/Sample.Sum,Mean,Weight(40000 values)": true}

func tt(e *Enc, r *stats.TTestResult, err error) []byte {
	e.Err(err)
	if r != nil {
		e.I(r.N1, r.N2).F(r.T, r.DoF, r.P).I(int(r.AltHypothesis))
	}
	return e.Bytes()
}

func graphEnc(e *Enc, g graph.Graph) *Enc {
	e.I(g.NumNodes())
	for i := 0; i < g.NumNodes(); i++ {
		e.Is(g.Out(i))
	}
	return e
}

// Entries is the alphabet.
var Entries = []Entry{
	{"stats.MannWhitneyUTest", func(f *Fix) []byte {
		e := &Enc{}
		for _, alt := range []stats.LocationHypothesis{stats.LocationLess, stats.LocationDiffers, stats.LocationGreater} {
			r, err := stats.MannWhitneyUTest(f.X1, f.X2, alt)
			e.Err(err)
			if r != nil {
				e.I(r.N1, r.N2).F(r.U, r.P)
			}
		}
		return e.Bytes()
	}, "stats"},
	{"stats.UDist.CDF/PMF(ties)", func(f *Fix) []byte {
		e := &Enc{}
		for _, u := range []float64{-0.5, 3.5, 6, 12.5} {
			e.F(f.UD.CDF(u), f.UD.PMF(u))
		}
		lo, hi := f.UD.Bounds()
		return e.F(lo, hi, f.UD.Step()).Bytes()
	}, "stats"},
	{"stats.UDist.CDF/PMF(no ties)", func(f *Fix) []byte {
		e := &Enc{}
		d := stats.UDist{N1: 3, N2: 4}
		for _, u := range []float64{0, 5, 9} {
			e.F(d.CDF(u), d.PMF(u))
		}
		return e.Bytes()
	}, "stats"},
	{"stats.TwoSampleTTest", func(f *Fix) []byte {
		r, err := stats.TwoSampleTTest(f.S1, stats.Sample{Xs: f.X2}, stats.LocationDiffers)
		return tt(&Enc{}, r, err)
	}, "stats"},
	{"stats.TwoSampleWelchTTest", func(f *Fix) []byte {
		r, err := stats.TwoSampleWelchTTest(f.S1, stats.Sample{Xs: f.X2}, stats.LocationLess)
		return tt(&Enc{}, r, err)
	}, "stats"},
	{"stats.PairedTTest", func(f *Fix) []byte {
		r, err := stats.PairedTTest(f.X1, f.Y1, 0.25, stats.LocationGreater)
		return tt(&Enc{}, r, err)
	}, "stats"},
	{"stats.OneSampleTTest", func(f *Fix) []byte {
		r, err := stats.OneSampleTTest(f.S1, 1, stats.LocationDiffers)
		return tt(&Enc{}, r, err)
	}, "stats"},
	{"stats.MeanCI", func(f *Fix) []byte {
		m, lo, hi := stats.MeanCI(f.X1, 0.95)
		return (&Enc{}).F(m, lo, hi).Bytes()
	}, "stats"},
	{"stats.Sample.MeanCI", func(f *Fix) []byte {
		m2, lo2, hi2 := f.S1.MeanCI(0.5)
		return (&Enc{}).F(m2, lo2, hi2).Bytes()
	}, "stats"},
	{"stats.Mean/Variance/StdDev/GeoMean/Bounds", func(f *Fix) []byte {
		lo, hi := stats.Bounds(f.X1)
		return (&Enc{}).F(stats.Mean(f.X1), stats.Variance(f.X1), stats.StdDev(f.X1), stats.GeoMean(f.X1), lo, hi).Bytes()
	}, "stats"},
	{"stats.Sample.Mean/Sum/Weight/Bounds/GeoMean(weighted)", func(f *Fix) []byte {
		lo, hi := f.SW.Bounds()
		return (&Enc{}).F(f.SW.Mean(), f.SW.Sum(), f.SW.Weight(), f.SW.GeoMean(), lo, hi).Bytes()
	}, "stats"},
	{"stats.Sample.Variance/StdDev", func(f *Fix) []byte {
		return (&Enc{}).F(f.S1.Variance(), f.S1.StdDev(), f.SS.Variance()).Bytes()
	}, "stats"},
	{"stats.Sample.Quantile", func(f *Fix) []byte {
		e := &Enc{}
		for _, q := range []float64{0, 0.1, 0.25, 0.5, 0.9, 1} {
			e.F(f.S1.Quantile(q), f.SW.Quantile(q), f.SS.Quantile(q))
		}
		return e.Bytes()
	}, "stats"},
	{"stats.Sample.IQR", func(f *Fix) []byte { return (&Enc{}).F(f.S1.IQR(), f.SS.IQR()).Bytes() }, "stats"},
	{"stats.Sample.Copy", func(f *Fix) []byte {
		c := f.SW.Copy()
		return (&Enc{}).Fs(c.Xs).Fs(c.Weights).B(c.Sorted).Bytes()
	}, "stats"},
	{"stats.QuantileCI+SampleCI", func(f *Fix) []byte {
		ci := stats.QuantileCI(len(f.X1), 0.5, 0.9)
		q, lo, hi := ci.SampleCI(f.S1)
		ci2 := stats.QuantileCI(40, 0.3, 0.95)
		return (&Enc{}).I(ci.LoOrder, ci.HiOrder, ci2.LoOrder, ci2.HiOrder).F(ci.Confidence, ci2.Confidence, q, lo, hi).B(ci.Ambiguous).Bytes()
	}, "stats"},
	{"stats.KDE.PDF/CDF/Bounds", func(f *Fix) []byte {
		lo, hi := f.KDE.Bounds()
		return (&Enc{}).F(f.KDE.PDF(2.5), f.KDE.CDF(2.5), f.KDE.PDF(-1), lo, hi).Bytes()
	}, "stats"},
	{"stats.BandwidthScott/Silverman", func(f *Fix) []byte {
		return (&Enc{}).F(stats.BandwidthScott(f.S1), stats.BandwidthSilverman(f.S1)).Bytes()
	}, "stats"},
	{"stats.InvCDF(TDist)", func(f *Fix) []byte {
		inv := stats.InvCDF(stats.TDist{V: 3})
		return (&Enc{}).F(inv(0), inv(0.2), inv(1)).Bytes()
	}, "stats"},
	{"stats.InvCDF(BinomialDist)", func(f *Fix) []byte {
		inv := stats.InvCDF(stats.BinomialDist{N: 7, P: 0.3})
		return (&Enc{}).F(inv(0), inv(0.5), inv(1)).Bytes()
	}, "stats"},
	{"stats.InvCDF(KDE)", func(f *Fix) []byte {
		inv := stats.InvCDF(f.KDE)
		return (&Enc{}).F(inv(0.2), inv(1)).Bytes()
	}, "stats"},
	{"stats.Rand(seeded source)", func(f *Fix) []byte {
		g := stats.Rand(stats.BinomialDist{N: 5, P: 0.4})
		n := stats.Rand(stats.NormalDist{Mu: 1, Sigma: 2})
		r1, r2 := rand.New(rand.NewSource(11)), rand.New(rand.NewSource(12))
		return (&Enc{}).F(g(r1), n(r2), n(r2)).Bytes()
	}, "stats"},
	{"stats.NormalDist/TDist/BinomialDist/HypergeometicDist", func(f *Fix) []byte {
		n := stats.NormalDist{Mu: 0.5, Sigma: 2}
		b := stats.BinomialDist{N: 9, P: 0.4}
		h := stats.HypergeometicDist{N: 12, K: 5, Draws: 6}
		t := stats.TDist{V: 4.5}
		return (&Enc{}).F(n.PDF(1), n.CDF(1), n.InvCDF(0.3), b.PMF(3), b.CDF(3.5), h.PMF(2), h.CDF(3), t.PDF(0.7), t.CDF(-0.7), b.NormalApprox().Sigma).Bytes()
	}, "stats"},
	{"stats.HistogramQuantile/IQR", func(f *Fix) []byte {
		return (&Enc{}).F(stats.HistogramQuantile(f.Hist, 0.5), stats.HistogramQuantile(f.Hist, 1), stats.HistogramIQR(f.Hist)).Bytes()
	}, "stats"},
	{"mathx.BetaInc/GammaInc/Choose", func(f *Fix) []byte {
		return (&Enc{}).F(mathx.BetaInc(0.3, 2.5, 4), mathx.GammaInc(3.5, 2), mathx.GammaIncComp(3.5, 7), mathx.Choose(30, 11), mathx.Lchoose(40, 3), mathx.Beta(2, 3.5)).Bytes()
	}, "mathx"},
	{"vec.Sum/Map/Vectorize/Concat/Linspace/Logspace", func(f *Fix) []byte {
		sq := func(x float64) float64 { return x * x }
		return (&Enc{}).F(vec.Sum(f.X1)).Fs(vec.Map(sq, f.X1)).Fs(vec.Vectorize(sq)(f.X2)).Fs(vec.Concat(f.X1, f.X2, f.X1)).Fs(vec.Linspace(0, 1, 4)).Fs(vec.Logspace(0, 2, 3, 10)).Bytes()
	}, "vec"},
	{"fit.LinearLeastSquares", func(f *Fix) []byte {
		one := func(xs, out []float64) {
			for i := range out {
				out[i] = 1
			}
		}
		lin := func(xs, out []float64) { copy(out, xs) }
		return (&Enc{}).Fs(fit.LinearLeastSquares(f.X3, f.Y1, f.W1, one, lin)).Fs(fit.LinearLeastSquares(f.X3, f.Y1, nil, one, lin)).Bytes()
	}, "fit"},
	{"fit.PolynomialRegression", func(f *Fix) []byte {
		r := fit.PolynomialRegression(f.X3, f.Y1, f.W1, 2)
		return (&Enc{}).Fs(r.Coefficients).F(r.F(0.5)).S(r.String()).Bytes()
	}, "fit"},
	{"fit.LOESS", func(f *Fix) []byte {
		g := fit.LOESS(f.X3, f.Y1, 1, 1)
		return (&Enc{}).F(g(0.5), g(1.25)).Bytes()
	}, "fit"},
	{"scale.Linear.Map/Unmap/Ticks/CountTicks", func(f *Fix) []byte {
		ma, mi := f.Lin.Ticks(scale.TickOptions{Max: 6})
		return (&Enc{}).F(f.Lin.Map(2), f.Lin.Unmap(0.3)).Fs(ma).Fs(mi).I(f.Lin.CountTicks(0)).Fs(f.Lin.TicksAtLevel(1).([]float64)).Bytes()
	}, "scale"},
	{"scale.Linear(decreasing domain).Ticks/Map", func(f *Fix) []byte {
		// methods are called on the shared fixture itself (through its address where they
		// have pointer receivers), not on a copy
		l := &f.LinRev
		ma, mi := l.Ticks(scale.TickOptions{Max: 6})
		return (&Enc{}).Fs(ma).Fs(mi).I(l.CountTicks(0)).F(l.Map(2), l.Unmap(0.3)).Bytes()
	}, "scale"},
	{"scale.Log.Map/Unmap/Ticks", func(f *Fix) []byte {
		ma, mi := f.Log.Ticks(scale.TickOptions{Max: 5})
		return (&Enc{}).F(f.Log.Map(20), f.Log.Unmap(0.3)).Fs(ma).Fs(mi).Bytes()
	}, "scale"},
	{"scale.QQ", func(f *Fix) []byte {
		l, g := f.Lin, f.Log
		q := scale.QQ{Src: &l, Dest: &g}
		return (&Enc{}).F(q.Map(2), q.Unmap(30)).Bytes()
	}, "scale"},
	{"graph.Equal", func(f *Fix) []byte {
		return (&Enc{}).B(graph.Equal(f.G1, f.G2)).B(graph.Equal(f.G2, f.G1)).B(graph.Equal(f.G1, f.G3)).Bytes()
	}, "graph"},
	{"graph.MakeBiGraph", func(f *Fix) []byte {
		b := graph.MakeBiGraph(f.G1)
		e := &Enc{}
		for i := 0; i < b.NumNodes(); i++ {
			e.Is(b.In(i)).Is(b.Out(i))
		}
		return e.Bytes()
	}, "graph"},
	{"graph.SubgraphKeep", func(f *Fix) []byte {
		s := graph.SubgraphKeep(f.G1, f.Nodes, f.Edges)
		e := graphEnc(&Enc{}, s)
		nm := s.NodeMap(func(n int) interface{} { return n * 10 })
		return e.I(nm(0).(int), nm(2).(int)).Bytes()
	}, "graph"},
	{"graph.SubgraphRemove", func(f *Fix) []byte {
		s := graph.SubgraphRemove(f.G1, f.Nodes[:1], f.Edges[1:2])
		return graphEnc(&Enc{}, s).Bytes()
	}, "graph"},
	{"graph.SubgraphRemove/many-edges", func(f *Fix) []byte {
		// several edges leaving the same nodes (ascending, descending, repeated), no node removed
		s := graph.SubgraphRemove(f.G1, nil, []graph.Edge{{Node: 0, Edge: 2}, {Node: 0, Edge: 0}, {Node: 2, Edge: 0}, {Node: 2, Edge: 2}, {Node: 2, Edge: 1}, {Node: 4, Edge: 1}, {Node: 0, Edge: 2}})
		return graphEnc(&Enc{}, s).Bytes()
	}, "graph"},
	{"stats.HistogramQuantile/IQR(LogHist)", func(f *Fix) []byte {
		e := &Enc{}
		for _, q := range []float64{0.1, 0.5, 0.9, 0.3} {
			e.F(stats.HistogramQuantile(f.LH, q))
		}
		e.F(stats.HistogramIQR(f.LH))
		u, b, o := f.LH.Counts()
		e.I(int(u), int(o))
		for _, c := range b {
			e.I(int(c))
		}
		return e.Bytes()
	}, "stats"},
	{"vec.Sum/Sample.Sum,Mean,Weight(40000 values)", func(f *Fix) []byte {
		s := stats.Sample{Xs: f.BigX}
		w := stats.Sample{Xs: f.BigX[:20000], Weights: f.BigX[20000:]}
		return (&Enc{}).F(vec.Sum(f.BigX), s.Sum(), s.Mean(), s.Weight(), w.Sum(), w.Mean(), w.Weight()).Bytes()
	}, "vec"},
	{"stats.StreamStats.Combine(arg)", func(f *Fix) []byte {
		// private receivers (smaller, equal-sized and empty) fold the SHARED accumulator in:
		// the argument is only read
		e := &Enc{}
		var small, empty stats.StreamStats
		for _, x := range f.X2 {
			small.Add(x)
		}
		same := f.ST // value copy
		for _, acc := range []*stats.StreamStats{&small, &empty, &same} {
			acc.Combine(&f.ST)
			e.I(int(acc.Count)).F(acc.Total, acc.Min, acc.Max, acc.Mean(), acc.Variance(), acc.RMS())
		}
		return e.Bytes()
	}, "stats"},
	{"graphalg.PreOrder/PostOrder/Euler", func(f *Fix) []byte {
		e := (&Enc{}).Is(graphalg.PreOrder(f.G1, 0)).Is(graphalg.PostOrder(f.G1, 4))
		graphalg.Euler{Enter: func(n int) { e.I(n) }, Exit: func(n int) { e.I(-n - 1) }}.Visit(f.G1, 0)
		return e.Bytes()
	}, "graphalg"},
	{"graphalg.SCC", func(f *Fix) []byte {
		s := graphalg.SCC(f.G1, graphalg.SCCEdges)
		e := graphEnc(&Enc{}, s)
		for c := 0; c < s.NumNodes(); c++ {
			e.Is(s.Subnodes(c))
		}
		return e.I(s.SubnodeComponent(2)).Bytes()
	}, "graphalg"},
	{"graphalg.IDom/Dom/DomFrontier", func(f *Fix) []byte {
		id := graphalg.IDom(f.BG, 0)
		e := (&Enc{}).Is(id)
		t := graphalg.Dom(f.IDom)
		graphEnc(e, t)
		for _, df := range graphalg.DomFrontier(f.BG, 0, f.IDom) {
			e.Is(df)
		}
		for _, df := range graphalg.DomFrontier(f.BG, 0, nil) {
			e.Is(df)
		}
		return e.Bytes()
	}, "graphalg"},
	{"graphalg.IDom(shared BiGraph, first use)", func(f *Fix) []byte {
		e := (&Enc{}).Is(graphalg.IDom(f.BG2, 0))
		for _, df := range graphalg.DomFrontier(f.BG2, 0, nil) {
			e.Is(df)
		}
		return e.Bytes()
	}, "graphalg"},
	{"graphalg.PreOrder(1040 nodes)", func(f *Fix) []byte {
		pre := graphalg.PreOrder(f.Big, 0)
		return (&Enc{}).I(len(pre), pre[len(pre)-1], pre[1030]).Bytes()
	}, "graphalg"},
	{"fit.LOESS(shared fitted function)", func(f *Fix) []byte {
		return (&Enc{}).F(f.LoessF(0.5), f.LoessF(1.25), f.LoessF(-0.5)).Bytes()
	}, "fit"},
	{"graphalg.SimplifyMulti", func(f *Fix) []byte {
		s := graphalg.SimplifyMulti(f.G1)
		e := graphEnc(&Enc{}, s)
		for i := 0; i < s.NumNodes(); i++ {
			for k := range s.Out(i) {
				e.F(s.OutWeight(i, k))
			}
		}
		return e.Bytes()
	}, "graphalg"},
	{"graphout.Dot", func(f *Fix) []byte {
		d := graphout.Dot{Label: func(n int) string { return f.Strings[n%2] }}
		return (&Enc{}).S(d.Sprint(f.G1)).S(graphout.DotString(f.Strings[1])).Bytes()
	}, "graphout"},
}

// Names lists the entry names.
func Names() []string {
	out := make([]string, len(Entries))
	for i, e := range Entries {
		out[i] = e.Name
	}
	return out
}

// Covered is the list of exported identifiers the alphabet exercises (for the
// uncovered_exports report).
var Covered = []string{
	"MannWhitneyUTest", "UDist.CDF", "UDist.PMF", "UDist.Bounds", "UDist.Step", "TwoSampleTTest", "TwoSampleWelchTTest", "PairedTTest", "OneSampleTTest",
	"MeanCI", "Sample.MeanCI", "Mean", "Variance", "StdDev", "GeoMean", "Bounds", "Sample.Mean", "Sample.Sum", "Sample.Weight", "Sample.Bounds", "Sample.GeoMean",
	"Sample.Variance", "Sample.StdDev", "Sample.Quantile", "Sample.IQR", "Sample.Copy", "QuantileCI", "QuantileCIResult.SampleCI", "KDE.PDF", "KDE.CDF", "KDE.Bounds",
	"BandwidthScott", "BandwidthSilverman", "InvCDF", "Rand", "NormalDist.PDF", "NormalDist.CDF", "NormalDist.InvCDF", "NormalDist.Rand", "BinomialDist.PMF", "BinomialDist.CDF",
	"BinomialDist.NormalApprox", "HypergeometicDist.PMF", "HypergeometicDist.CDF", "TDist.PDF", "TDist.CDF", "HistogramQuantile", "HistogramIQR", "BetaInc", "GammaInc",
	"GammaIncComp", "Choose", "Lchoose", "Beta", "Sum", "Map", "Vectorize", "Concat", "Linspace", "Logspace", "LinearLeastSquares", "PolynomialRegression",
	"PolynomialRegressionResult.String", "LOESS", "Linear.Map", "Linear.Unmap", "Linear.Ticks", "Linear.CountTicks", "Linear.TicksAtLevel", "Log.Map", "Log.Unmap", "Log.Ticks",
	"QQ.Map", "QQ.Unmap", "Equal", "MakeBiGraph", "SubgraphKeep", "SubgraphRemove", "StreamStats.Combine", "StreamStats.Add", "StreamStats.Mean", "StreamStats.Variance", "StreamStats.RMS", "PreOrder", "PostOrder", "Euler.Visit", "SCC", "SCCGraph.Subnodes", "SCCGraph.SubnodeComponent",
	"SCCGraph.Out", "SCCGraph.NumNodes", "IDom", "Dom", "DomFrontier", "DomTree.Out", "DomTree.NumNodes", "SimplifyMulti", "Dot.Sprint", "Dot.Fprint", "DotString", "NewLog",
	"TickOptions.FindLevel", "IntGraph.Out", "IntGraph.NumNodes",
}

// Describe renders a mismatch for messages.
func Describe(b []byte) string {
	if len(b) > 48 {
		return fmt.Sprintf("%x…(%d bytes)", b[:48], len(b))
	}
	return fmt.Sprintf("%x", b)
}
