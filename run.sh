#!/bin/bash
# ./run.sh <ID> quick|thorough      run one property check (rebuilds from /repo's working tree first)
# ./run.sh replay <file>            re-execute one recorded violation
# ./run.sh build                    build only (setup)
set -u
cd "$(dirname "$0")"
export GOFLAGS=-mod=mod GOPROXY=off GOSUMDB=off GOTOOLCHAIN=local
export GOCACHE="${GOCACHE:-/verif/.gocache}"
export VERIF_DIR="$(pwd)"
build() {
  mkdir -p bin
  # Always rebuild: the go.mod replace points at /repo, so the build cache
  # recompiles exactly the library packages whose sources changed.
  if ! out=$(go build -o bin/mc ./cmd/mc 2>&1); then
    echo "BUILD FAILED (the current /repo tree or the harness does not compile):" >&2
    echo "$out" >&2
    return 2
  fi
}
case "${1:-}" in
  build) build; exit $? ;;
  replay) build || exit 2; exec bin/mc replay "$2" ;;
  "" ) echo "usage: $0 <ID> quick|thorough | replay <file> | build" >&2; exit 2 ;;
  *) build || exit 2
     tier="${2:-${VERIF_TIER:-quick}}"
     exec bin/mc run "$1" "$tier" ;;
esac
