package core

import (
	"fmt"
	"math"
	"reflect"
	"sort"
	"strings"
)

// DeepKey renders every field of v (exported or not, through pointers, slices up
// to their length, maps in sorted order) as a string. Explicit-state searches use
// it as the state key of a library object, so that state the model does not know
// about (a cached count, a memo, a dirty flag added by a change to the library)
// keeps two implementation states apart instead of being merged silently.
func DeepKey(v any) string {
	var b strings.Builder
	deepKey(&b, reflect.ValueOf(v), 0)
	return b.String()
}

func deepKey(b *strings.Builder, v reflect.Value, depth int) {
	if depth > 12 {
		b.WriteString("<deep>")
		return
	}
	if !v.IsValid() {
		b.WriteString("<nil>")
		return
	}
	switch v.Kind() {
	case reflect.Bool:
		fmt.Fprintf(b, "%t", v.Bool())
	case reflect.Int, reflect.Int8, reflect.Int16, reflect.Int32, reflect.Int64:
		fmt.Fprintf(b, "%d", v.Int())
	case reflect.Uint, reflect.Uint8, reflect.Uint16, reflect.Uint32, reflect.Uint64, reflect.Uintptr:
		fmt.Fprintf(b, "%d", v.Uint())
	case reflect.Float32, reflect.Float64:
		fmt.Fprintf(b, "f%x", math.Float64bits(v.Float()))
	case reflect.Complex64, reflect.Complex128:
		c := v.Complex()
		fmt.Fprintf(b, "c%x,%x", math.Float64bits(real(c)), math.Float64bits(imag(c)))
	case reflect.String:
		fmt.Fprintf(b, "%q", v.String())
	case reflect.Slice:
		if v.IsNil() {
			b.WriteString("nil[]")
			return
		}
		fallthrough
	case reflect.Array:
		b.WriteByte('[')
		for i := 0; i < v.Len(); i++ {
			if i > 0 {
				b.WriteByte(' ')
			}
			deepKey(b, v.Index(i), depth+1)
		}
		b.WriteByte(']')
	case reflect.Struct:
		b.WriteByte('{')
		for i := 0; i < v.NumField(); i++ {
			if i > 0 {
				b.WriteByte(' ')
			}
			b.WriteString(v.Type().Field(i).Name)
			b.WriteByte(':')
			deepKey(b, v.Field(i), depth+1)
		}
		b.WriteByte('}')
	case reflect.Ptr, reflect.Interface:
		if v.IsNil() {
			b.WriteString("nil")
			return
		}
		b.WriteByte('&')
		deepKey(b, v.Elem(), depth+1)
	case reflect.Map:
		if v.IsNil() {
			b.WriteString("nilmap")
			return
		}
		type kv struct{ k, v string }
		var kvs []kv
		it := v.MapRange()
		for it.Next() {
			var kb, vb strings.Builder
			deepKey(&kb, it.Key(), depth+1)
			deepKey(&vb, it.Value(), depth+1)
			kvs = append(kvs, kv{kb.String(), vb.String()})
		}
		sort.Slice(kvs, func(i, j int) bool { return kvs[i].k < kvs[j].k })
		b.WriteString("map[")
		for _, e := range kvs {
			b.WriteString(e.k + ":" + e.v + " ")
		}
		b.WriteByte(']')
	case reflect.Func, reflect.Chan, reflect.UnsafePointer:
		if v.IsNil() {
			b.WriteString("nilfn")
		} else {
			b.WriteString("fn")
		}
	default:
		b.WriteString("?")
	}
}
