// Package core is the shared engine of the bounded-exhaustive explorers:
// a per-worker recorder (cases, states, transitions, outcomes, error margins,
// violations, known-finding hits), a registry of properties and case kinds,
// and the merge/evidence/replay plumbing used by cmd/mc.
package core

import (
	"bytes"
	"encoding/json"
	"fmt"
	"hash/fnv"
	"io"
	"math"
	"os"
	"os/exec"
	"runtime/debug"
	"sort"
	"strings"
	"sync/atomic"
)

// Ctx is what a property's Run function receives.
type Ctx struct {
	Tier    string // "quick" or "thorough"
	Shard   int
	NShards int
	Seed    int64
	R       *Rec

	mine int64
}

// Thorough reports whether the thorough tier was requested.
func (c *Ctx) Thorough() bool { return c.Tier == "thorough" }

// Mine partitions an outer loop over shards: it returns true for every
// NShards-th call, offset by Shard. The set of work items is independent of
// the seed and of the number of shards; only the assignment changes.
func (c *Ctx) Mine() bool {
	i := c.mine
	c.mine++
	return int(i%int64(c.NShards)) == c.Shard
}

// First reports whether this is shard 0 (for work that is done once).
func (c *Ctx) First() bool { return c.Shard == 0 }

// Violation is one failing case, kept for the first case of each signature.
type Violation struct {
	Property string          `json:"property"`
	Kind     string          `json:"kind"`
	Sig      string          `json:"signature"`
	Msg      string          `json:"message"`
	Case     json.RawMessage `json:"case"`
	Count    int64           `json:"count"`
	Order    int64           `json:"order"` // evaluation index at which it was first seen
	// Shard/NShards/Tier identify the worker run that found it (used to
	// re-execute the whole preceding history when the case alone does not fail).
	Shard   int    `json:"shard"`
	NShards int    `json:"nshards,omitempty"`
	Tier    string `json:"tier,omitempty"`
	// Alts holds the first failing case of every other kind with the same
	// signature: if the primary case does not fail when replayed alone (its
	// failure depended on earlier cases) a self-contained one may.
	Alts []AltCase `json:"alts,omitempty"`
}

// AltCase is an alternative witness of a violation.
type AltCase struct {
	Kind string          `json:"kind"`
	Msg  string          `json:"message"`
	Case json.RawMessage `json:"case"`
}

func (v *Violation) addAlt(kind, msg string, c json.RawMessage) {
	if kind == v.Kind || len(v.Alts) >= 4 {
		return
	}
	for _, a := range v.Alts {
		if a.Kind == kind {
			return
		}
	}
	v.Alts = append(v.Alts, AltCase{kind, msg, c})
}

// Margin tracks the worst observed error relative to its tolerance.
type Margin struct {
	WorstErr   float64 `json:"worst_err"`
	Tol        float64 `json:"tol_at_worst"`
	WorstRatio float64 `json:"worst_ratio"`
	N          int64   `json:"n"`
}

// Rec is the per-worker recorder. It is not safe for concurrent use; each
// worker process owns one.
type Rec struct {
	Property    string                `json:"property"`
	Evals       int64                 `json:"evaluations"`
	Nontrivial  int64                 `json:"distinct_nontrivial"`
	States      int64                 `json:"states"`
	Transitions int64                 `json:"transitions"`
	Validated   int64                 `json:"traces_validated"`
	Skipped     map[string]int64      `json:"skipped,omitempty"`
	Counters    map[string]int64      `json:"counters,omitempty"`
	Margins     map[string]*Margin    `json:"margins,omitempty"`
	Outcomes    map[uint64]struct{}   `json:"-"`
	OutcomeList []uint64              `json:"outcomes,omitempty"`
	OutcomesCap bool                  `json:"outcomes_capped,omitempty"`
	Viol        map[string]*Violation `json:"violations,omitempty"`
	Known       map[string]*Violation `json:"known,omitempty"`
	Samples     []json.RawMessage     `json:"samples,omitempty"`
	Notes       []string              `json:"notes,omitempty"`
	Bounds      map[string]string     `json:"bounds,omitempty"` // bound name -> completed value
	Incomplete  []string              `json:"incomplete,omitempty"`

	curKind    string
	cur        any
	nextSample int64
	sampleStep int64
	// Progress is bumped on every Case; a watchdog in the worker reads it.
	Progress atomic.Int64             `json:"-"`
	Journal  func(kind string, c any) `json:"-"`
}

const outcomeCap = 1 << 16

// NewRec makes an empty recorder.
func NewRec(prop string, seed int64) *Rec {
	r := &Rec{Property: prop,
		Skipped: map[string]int64{}, Counters: map[string]int64{}, Margins: map[string]*Margin{},
		Outcomes: map[uint64]struct{}{}, Viol: map[string]*Violation{}, Known: map[string]*Violation{},
		Bounds: map[string]string{}}
	r.nextSample = 1 + (seed%7+7)%7
	r.sampleStep = 3
	return r
}

// Case starts a new case of the given kind. c must be JSON-serialisable and
// may be a pointer to a struct that the caller reuses.
func (r *Rec) Case(kind string, c any) {
	r.Evals++
	r.Progress.Add(1)
	r.curKind, r.cur = kind, c
	if r.Journal != nil {
		r.Journal(kind, c)
	}
	if r.Evals == r.nextSample && len(r.Samples) < 6 {
		b, err := json.Marshal(map[string]any{"kind": kind, "case": c})
		if err == nil {
			r.Samples = append(r.Samples, b)
		}
		r.nextSample = r.nextSample*r.sampleStep + 1
	}
}

// Current returns the kind and value of the case being checked.
func (r *Rec) Current() (string, any) { return r.curKind, r.cur }

// NT marks the current case as non-trivial by the property's rule.
func (r *Rec) NT() { r.Nontrivial++ }

// State / Trans / Valid bump the model-checking counters.
func (r *Rec) State(n int64) { r.States += n }
func (r *Rec) Trans(n int64) { r.Transitions += n }
func (r *Rec) Valid(n int64) { r.Validated += n }

// Skip counts a case that is outside the property's domain (with a reason).
func (r *Rec) Skip(reason string) { r.Skipped[reason]++ }

// Count bumps a named counter.
func (r *Rec) Count(name string, n int64) { r.Counters[name] += n }

// Bound records a completed bound (e.g. "N<=10").
func (r *Rec) Bound(name, val string) { r.Bounds[name] = val }

// Note adds a free-text note (deduplicated).
func (r *Rec) Note(s string) {
	for _, n := range r.Notes {
		if n == s {
			return
		}
	}
	r.Notes = append(r.Notes, s)
}

// Outcome records a hash of an observed result, to expose vacuous exploration.
func (r *Rec) Outcome(h uint64) {
	if len(r.Outcomes) >= outcomeCap {
		r.OutcomesCap = true
		return
	}
	r.Outcomes[h] = struct{}{}
}

// OutcomeF records a float outcome.
func (r *Rec) OutcomeF(fs ...float64) {
	h := uint64(1469598103934665603)
	for _, f := range fs {
		h ^= math.Float64bits(f)
		h *= 1099511628211
	}
	r.Outcome(h)
}

// Err records an observed error against its tolerance and returns true when
// the error is within tolerance. NaN errors are out of tolerance.
func (r *Rec) Err(name string, err, tol float64) bool {
	m := r.Margins[name]
	if m == nil {
		m = &Margin{}
		r.Margins[name] = m
	}
	m.N++
	ratio := err / tol
	if tol == 0 {
		if err == 0 {
			ratio = 0
		} else {
			ratio = math.Inf(1)
		}
	}
	if math.IsNaN(err) {
		ratio = math.Inf(1)
	}
	if ratio > m.WorstRatio && !math.IsInf(ratio, 0) {
		m.WorstRatio, m.WorstErr, m.Tol = ratio, err, tol
	}
	return ratio <= 1
}

// Fail records a violation of the current case. sig groups violations: only
// the first case of each signature is kept (enumeration is smallest-first, so
// it is also the smallest).
func (r *Rec) Fail(sig, format string, args ...any) {
	r.record(r.Viol, sig, format, args...)
}

// KnownHit records a discrepancy that matches the signature predicate of a
// known finding. Whether the finding is actually listed in KNOWN_FINDINGS.txt
// is decided by the driver; an unlisted id is reported as a violation.
func (r *Rec) KnownHit(id, format string, args ...any) {
	r.record(r.Known, id, format, args...)
}

func (r *Rec) record(m map[string]*Violation, sig, format string, args ...any) {
	v := m[sig]
	if v != nil {
		v.Count++
		if v.Kind != r.curKind && len(v.Alts) < 4 {
			if b, err := json.Marshal(r.cur); err == nil {
				v.addAlt(r.curKind, fmt.Sprintf(format, args...), b)
			}
		}
		return
	}
	if len(m) >= 64 {
		// Too many distinct signatures: fold into one.
		sig = "overflow"
		if v = m[sig]; v != nil {
			v.Count++
			return
		}
	}
	b, err := json.Marshal(r.cur)
	if err != nil {
		b, _ = json.Marshal(fmt.Sprintf("%+v", r.cur))
	}
	m[sig] = &Violation{Property: r.Property, Kind: r.curKind, Sig: sig,
		Msg: fmt.Sprintf(format, args...), Case: b, Count: 1, Order: r.Evals}
}

// Try runs f and turns a panic into a violation of the current case.
func (r *Rec) Try(f func()) {
	defer func() {
		if e := recover(); e != nil {
			st := string(debug.Stack())
			r.Fail("panic:"+panicSite(st), "panic: %v", e)
		}
	}()
	f()
}

// Catch runs f and returns the recovered panic value (nil if none).
func Catch(f func()) (p any) {
	defer func() { p = recover() }()
	f()
	return nil
}

// panicSite extracts the first library frame from a stack trace so that
// panics at different sites get different signatures.
func panicSite(st string) string {
	lines := strings.Split(st, "\n")
	for _, l := range lines {
		l = strings.TrimSpace(l)
		if i := strings.Index(l, "/repo/"); i >= 0 {
			s := l[i+len("/repo/"):]
			if j := strings.Index(s, " "); j >= 0 {
				s = s[:j]
			}
			return s
		}
	}
	return "unknown"
}

// Finish prepares the recorder for serialisation.
func (r *Rec) Finish() {
	r.OutcomeList = r.OutcomeList[:0]
	for h := range r.Outcomes {
		r.OutcomeList = append(r.OutcomeList, h)
	}
	sort.Slice(r.OutcomeList, func(i, j int) bool { return r.OutcomeList[i] < r.OutcomeList[j] })
}

// Merge folds another worker's result into r.
func (r *Rec) Merge(o *Rec) {
	r.Evals += o.Evals
	r.Nontrivial += o.Nontrivial
	r.States += o.States
	r.Transitions += o.Transitions
	r.Validated += o.Validated
	for k, v := range o.Skipped {
		r.Skipped[k] += v
	}
	for k, v := range o.Counters {
		r.Counters[k] += v
	}
	for k, v := range o.Bounds {
		r.Bounds[k] = v
	}
	for k, m := range o.Margins {
		rm := r.Margins[k]
		if rm == nil {
			c := *m
			r.Margins[k] = &c
			continue
		}
		rm.N += m.N
		if m.WorstRatio > rm.WorstRatio {
			rm.WorstRatio, rm.WorstErr, rm.Tol = m.WorstRatio, m.WorstErr, m.Tol
		}
	}
	for _, h := range o.OutcomeList {
		if len(r.Outcomes) < 4*outcomeCap {
			r.Outcomes[h] = struct{}{}
		}
	}
	r.OutcomesCap = r.OutcomesCap || o.OutcomesCap
	mergeV := func(dst, src map[string]*Violation) {
		for k, v := range src {
			d := dst[k]
			if d == nil {
				c := *v
				dst[k] = &c
				continue
			}
			d.Count += v.Count
			if len(v.Case) < len(d.Case) || (len(v.Case) == len(d.Case) && v.Order < d.Order) {
				ok, oc, om := d.Kind, d.Case, d.Msg
				d.Order, d.Case, d.Msg, d.Kind = v.Order, v.Case, v.Msg, v.Kind
				d.Shard, d.NShards, d.Tier = v.Shard, v.NShards, v.Tier
				d.addAlt(ok, om, oc)
			} else {
				d.addAlt(v.Kind, v.Msg, v.Case)
			}
			for _, a := range v.Alts {
				d.addAlt(a.Kind, a.Msg, a.Case)
			}
			kept := d.Alts[:0]
			for _, a := range d.Alts {
				if a.Kind != d.Kind {
					kept = append(kept, a)
				}
			}
			d.Alts = kept
		}
	}
	mergeV(r.Viol, o.Viol)
	mergeV(r.Known, o.Known)
	for _, s := range o.Samples {
		if len(r.Samples) < 12 {
			r.Samples = append(r.Samples, s)
		}
	}
	for _, n := range o.Notes {
		r.Note(n)
	}
	r.Incomplete = append(r.Incomplete, o.Incomplete...)
}

// SigHash is a short stable hash of a signature, used in replay file names.
func SigHash(s string) string {
	h := fnv.New32a()
	h.Write([]byte(s))
	return fmt.Sprintf("%08x", h.Sum32())
}

// ---------------------------------------------------------------------------
// Registry

// Kind describes one family of cases of a property: how to re-check one case
// from its JSON form.
type Kind struct {
	Name string
	// Replay unmarshals raw into the kind's case type and runs the same
	// check function the enumeration uses.
	Replay func(raw json.RawMessage, r *Rec) error
	// GoTest, if set, renders a stand-alone unit test for the case.
	GoTest func(raw json.RawMessage) string
}

// Prop is a registered property check.
type Prop struct {
	ID          string
	Title       string
	Run         func(c *Ctx)
	Kinds       []Kind
	Rule        string // how cases are enumerated and what "non-trivial" means
	Technique   string
	Assumptions []string
	// HangSeconds overrides the worker watchdog threshold (0 = default 300).
	HangSeconds int
	// Serial properties run in one worker (NShards = 1).
	Serial bool
	// Post, if set, runs in the driver after the merge (e.g. the C20 race pass).
	Post func(tier string, r *Rec)
}

var registry = map[string]*Prop{}

// Register adds a property to the registry.
func Register(p *Prop) {
	if registry[p.ID] != nil {
		panic("duplicate property " + p.ID)
	}
	registry[p.ID] = p
}

// Lookup returns a registered property.
func Lookup(id string) *Prop { return registry[id] }

// IDs lists registered ids in order.
func IDs() []string {
	var ids []string
	for k := range registry {
		ids = append(ids, k)
	}
	sort.Strings(ids)
	return ids
}

// ReplayOf builds a Kind whose Replay unmarshals into T and calls check.
func ReplayOf[T any](name string, check func(c *T, r *Rec)) Kind {
	return Kind{Name: name, Replay: func(raw json.RawMessage, r *Rec) error {
		var c T
		if err := json.Unmarshal(raw, &c); err != nil {
			return err
		}
		r.Case(name, &c)
		r.Try(func() { check(&c, r) })
		return nil
	}}
}

// Isolated runs one case of the given kind in a fresh process (the mc binary's
// "isolated" sub-command) and merges what it recorded. It is for history cases
// about process-wide state: the history then really starts from the initial
// state, whatever this worker did before, and a failure replays alone.
func (r *Rec) Isolated(kind string, c any) {
	raw, err := json.Marshal(c)
	if err != nil {
		panic(err)
	}
	self, err := os.Executable()
	if err != nil {
		panic(err)
	}
	cmd := exec.Command(self, "isolated", r.Property, kind)
	cmd.Stdin = bytes.NewReader(raw)
	var out, errb bytes.Buffer
	cmd.Stdout, cmd.Stderr = &out, &errb
	runErr := cmd.Run()
	var sub Rec
	if runErr != nil || json.Unmarshal(out.Bytes(), &sub) != nil {
		// the process died (fatal error inside the case) or produced no record
		r.Evals++
		tail := errb.String()
		if len(tail) > 1500 {
			tail = tail[:1500]
		}
		r.FailRaw(kind, "crash:isolated:"+panicSite(tail), fmt.Sprintf("isolated case died: %v\n%s", runErr, tail), raw)
		return
	}
	r.Merge(&sub)
	r.Count("isolated_processes", 1)
}

// RunIsolated is the child side of Isolated: it replays the case read from in
// on a fresh recorder and writes the recorder to out.
func RunIsolated(prop, kind string, in io.Reader, out io.Writer) int {
	p := Lookup(prop)
	if p == nil {
		return 2
	}
	raw, err := io.ReadAll(in)
	if err != nil {
		return 2
	}
	for i := range p.Kinds {
		if p.Kinds[i].Name == kind {
			r := NewRec(prop, 0)
			if err := p.Kinds[i].Replay(raw, r); err != nil {
				fmt.Fprintln(os.Stderr, err)
				return 2
			}
			r.Finish()
			b, err := json.Marshal(r)
			if err != nil {
				fmt.Fprintln(os.Stderr, err)
				return 2
			}
			out.Write(b)
			return 0
		}
	}
	return 2
}

// Bulk adds counts produced by an external harness process.
func (r *Rec) Bulk(evals, nontrivial int64) {
	r.Evals += evals
	r.Nontrivial += nontrivial
	r.Progress.Add(1)
}

// FailRaw records a violation whose case is already serialised.
func (r *Rec) FailRaw(kind, sig, msg string, raw json.RawMessage) {
	if v := r.Viol[sig]; v != nil {
		v.Count++
		return
	}
	r.Viol[sig] = &Violation{Property: r.Property, Kind: kind, Sig: sig, Msg: msg, Case: raw, Count: 1, Order: r.Evals}
}

// AddSample appends an already serialised sample case.
func (r *Rec) AddSample(kind string, raw json.RawMessage) {
	if len(r.Samples) < 6 {
		b, _ := json.Marshal(map[string]any{"kind": kind, "case": raw})
		r.Samples = append(r.Samples, b)
	}
}
