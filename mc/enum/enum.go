// Package enum holds deterministic enumerators of small combinatorial
// spaces. Every enumerator visits each object exactly once, smallest first,
// and reuses the slice it passes to the callback (copy it to keep it).
package enum

// Compositions calls f with every composition of n into k >= minParts
// positive parts (ordered).
func Compositions(n, minParts int, f func(parts []int)) {
	parts := make([]int, 0, n)
	var rec func(rem int)
	rec = func(rem int) {
		if rem == 0 {
			if len(parts) >= minParts {
				f(parts)
			}
			return
		}
		for p := 1; p <= rem; p++ {
			parts = append(parts, p)
			rec(rem - p)
			parts = parts[:len(parts)-1]
		}
	}
	rec(n)
}

// Allocations calls f with every vector r, 0 <= r[k] <= t[k], sum r = n1.
func Allocations(t []int, n1 int, f func(r []int)) {
	r := make([]int, len(t))
	suffix := make([]int, len(t)+1)
	for k := len(t) - 1; k >= 0; k-- {
		suffix[k] = suffix[k+1] + t[k]
	}
	var rec func(k, rem int)
	rec = func(k, rem int) {
		if k == len(t) {
			if rem == 0 {
				f(r)
			}
			return
		}
		lo := rem - suffix[k+1]
		if lo < 0 {
			lo = 0
		}
		hi := t[k]
		if hi > rem {
			hi = rem
		}
		for v := lo; v <= hi; v++ {
			r[k] = v
			rec(k+1, rem-v)
		}
	}
	rec(0, n1)
}

// Sequences calls f with every sequence of length n over 0..a-1.
func Sequences(n, a int, f func(s []int)) {
	s := make([]int, n)
	for {
		f(s)
		i := n - 1
		for ; i >= 0; i-- {
			s[i]++
			if s[i] < a {
				break
			}
			s[i] = 0
		}
		if i < 0 {
			return
		}
	}
}

// Multisets calls f with every non-decreasing sequence of length n over 0..a-1.
func Multisets(n, a int, f func(s []int)) {
	s := make([]int, n)
	var rec func(i, lo int)
	rec = func(i, lo int) {
		if i == n {
			f(s)
			return
		}
		for v := lo; v < a; v++ {
			s[i] = v
			rec(i+1, v)
		}
	}
	rec(0, 0)
}

// Permutations calls f with every permutation of 0..n-1 (lexicographic).
func Permutations(n int, f func(p []int)) {
	p := make([]int, n)
	used := make([]bool, n)
	var rec func(i int)
	rec = func(i int) {
		if i == n {
			f(p)
			return
		}
		for v := 0; v < n; v++ {
			if !used[v] {
				used[v] = true
				p[i] = v
				rec(i + 1)
				used[v] = false
			}
		}
	}
	rec(0)
}

// Subsets calls f with every subset of 0..n-1 as a bit mask, in increasing
// mask order.
func Subsets(n int, f func(mask uint)) {
	for m := uint(0); m < 1<<uint(n); m++ {
		f(m)
	}
}

// Combinations calls f with every k-subset of 0..n-1 in lexicographic order.
func Combinations(n, k int, f func(c []int)) {
	c := make([]int, k)
	var rec func(i, lo int)
	rec = func(i, lo int) {
		if i == k {
			f(c)
			return
		}
		for v := lo; v <= n-(k-i); v++ {
			c[i] = v
			rec(i+1, v+1)
		}
	}
	rec(0, 0)
}

// Digraph returns the adjacency lists (ascending targets) of the digraph on n
// nodes whose edge u->v is present iff bit u*n+v of code is set.
func Digraph(n int, code uint64) [][]int {
	g := make([][]int, n)
	for u := 0; u < n; u++ {
		for v := 0; v < n; v++ {
			if code>>(uint(u*n+v))&1 != 0 {
				g[u] = append(g[u], v)
			}
		}
	}
	return g
}
