package ref

import (
	"math"
	"math/big"
	"sync"
)

// Elementary functions on big.Float, written from their series definitions.
// All take the working precision from their argument (at least 128 bits) and
// return results accurate to roughly prec-32 bits relative.

func nf(prec uint) *big.Float { return new(big.Float).SetPrec(prec) }

var (
	constMu sync.Mutex
	ln2Memo = map[uint]*big.Float{}
	piMemo  = map[uint]*big.Float{}
)

// Ln2 returns ln 2 at the given precision: sum_{k>=1} 1/(k 2^k).
func Ln2(prec uint) *big.Float {
	constMu.Lock()
	defer constMu.Unlock()
	if v := ln2Memo[prec]; v != nil {
		return v
	}
	wp := prec + 64
	sum := nf(wp)
	term := nf(wp)
	pow := nf(wp).SetInt64(1)
	half := nf(wp).SetFloat64(0.5)
	for k := int64(1); ; k++ {
		pow.Mul(pow, half)
		term.Quo(pow, nf(wp).SetInt64(k))
		sum.Add(sum, term)
		if term.MantExp(nil) < -int(wp)-8 {
			break
		}
	}
	v := nf(prec).Set(sum)
	ln2Memo[prec] = v
	return v
}

// Exp returns e^x.
func Exp(x *big.Float) *big.Float {
	prec := x.Prec()
	if prec < 128 {
		prec = 128
	}
	if x.Sign() == 0 {
		return nf(prec).SetInt64(1)
	}
	wp := prec + 96
	ln2 := Ln2(wp)
	// k = round(x / ln2)
	q := nf(wp).Quo(x, ln2)
	qf, _ := q.Float64()
	if qf > 1e7 {
		return nf(prec).SetInf(false)
	}
	if qf < -1e7 {
		return nf(prec)
	}
	k := int(math.Round(qf))
	r := nf(wp).Sub(x, nf(wp).Mul(nf(wp).SetInt64(int64(k)), ln2))
	const s = 24
	r.SetMantExp(r, -s)
	// Taylor
	sum := nf(wp).SetInt64(1)
	term := nf(wp).SetInt64(1)
	for n := int64(1); ; n++ {
		term.Mul(term, r)
		term.Quo(term, nf(wp).SetInt64(n))
		sum.Add(sum, term)
		if term.Sign() == 0 || term.MantExp(nil) < -int(wp)-8 {
			break
		}
	}
	for i := 0; i < s; i++ {
		sum.Mul(sum, sum)
	}
	sum.SetMantExp(sum, k)
	return nf(prec).Set(sum)
}

// Log returns ln x for x > 0.
func Log(x *big.Float) *big.Float {
	prec := x.Prec()
	if prec < 128 {
		prec = 128
	}
	if x.Sign() <= 0 {
		panic("ref.Log: non-positive argument")
	}
	wp := prec + 96
	m := nf(wp)
	e := x.MantExp(m) // x = m * 2^e, m in [0.5, 1)
	mf, _ := m.Float64()
	y := nf(wp).SetFloat64(math.Log(mf))
	// Halley iteration on exp(y) = m: cubic convergence from 53 bits.
	for i := 0; i < 8; i++ {
		ey := Exp(y)
		num := nf(wp).Sub(m, ey)
		den := nf(wp).Add(m, ey)
		d := nf(wp).Quo(num, den)
		d.Mul(d, nf(wp).SetInt64(2))
		y.Add(y, d)
		if d.Sign() == 0 || d.MantExp(nil) < -int(wp)/2-8 {
			// one more step squares-and-a-half the error; do it and stop
			ey = Exp(y)
			num.Sub(m, ey)
			den.Add(m, ey)
			d.Quo(num, den)
			d.Mul(d, nf(wp).SetInt64(2))
			y.Add(y, d)
			break
		}
	}
	y.Add(y, nf(wp).Mul(nf(wp).SetInt64(int64(e)), Ln2(wp)))
	return nf(prec).Set(y)
}

// Pow returns x^y for x > 0.
func Pow(x, y *big.Float) *big.Float {
	prec := x.Prec()
	if prec < 128 {
		prec = 128
	}
	wp := prec + 64
	l := Log(nf(wp).Set(x))
	return nf(prec).Set(Exp(nf(wp).Mul(l, nf(wp).Set(y))))
}

// PowInt returns x^n for integer n >= 0 by binary powering.
func PowInt(x *big.Float, n int) *big.Float {
	prec := x.Prec()
	res := nf(prec).SetInt64(1)
	b := nf(prec).Set(x)
	for n > 0 {
		if n&1 == 1 {
			res.Mul(res, b)
		}
		b.Mul(b, b)
		n >>= 1
	}
	return res
}

// Sqrt returns the square root.
func Sqrt(x *big.Float) *big.Float {
	return nf(x.Prec()).Sqrt(x)
}

// atanSmall: Taylor series for |x| < 1/8 or so.
func atanSeries(x *big.Float, wp uint) *big.Float {
	x2 := nf(wp).Mul(x, x)
	sum := nf(wp).Set(x)
	pow := nf(wp).Set(x)
	for n := int64(1); ; n++ {
		pow.Mul(pow, x2)
		term := nf(wp).Quo(pow, nf(wp).SetInt64(2*n+1))
		if n%2 == 1 {
			sum.Sub(sum, term)
		} else {
			sum.Add(sum, term)
		}
		if term.Sign() == 0 || term.MantExp(nil) < -int(wp)-8 {
			break
		}
	}
	return sum
}

// Atan returns arctan x.
func Atan(x *big.Float) *big.Float {
	prec := x.Prec()
	if prec < 128 {
		prec = 128
	}
	wp := prec + 96
	y := nf(wp).Set(x)
	neg := y.Sign() < 0
	if neg {
		y.Neg(y)
	}
	// argument halving: atan(y) = 2 atan(y / (1 + sqrt(1+y^2)))
	halvings := 0
	one := nf(wp).SetInt64(1)
	for y.Cmp(nf(wp).SetFloat64(1.0/64)) > 0 {
		s := nf(wp).Mul(y, y)
		s.Add(s, one)
		s.Sqrt(s)
		s.Add(s, one)
		y.Quo(y, s)
		halvings++
	}
	res := atanSeries(y, wp)
	res.SetMantExp(res, halvings)
	if neg {
		res.Neg(res)
	}
	return nf(prec).Set(res)
}

// Pi returns pi (Machin's formula).
func Pi(prec uint) *big.Float {
	constMu.Lock()
	if v := piMemo[prec]; v != nil {
		constMu.Unlock()
		return v
	}
	constMu.Unlock()
	wp := prec + 64
	a := atanSeries(nf(wp).Quo(nf(wp).SetInt64(1), nf(wp).SetInt64(5)), wp)
	b := atanSeries(nf(wp).Quo(nf(wp).SetInt64(1), nf(wp).SetInt64(239)), wp)
	a.Mul(a, nf(wp).SetInt64(16))
	b.Mul(b, nf(wp).SetInt64(4))
	v := nf(prec).Sub(a, b)
	constMu.Lock()
	piMemo[prec] = v
	constMu.Unlock()
	return v
}

// Erfc returns the complementary error function of a float64 argument with
// about 100 good bits *relative*, for |x| <= 45, using the Maclaurin series of
// erf at a precision that absorbs the cancellation in 1 - erf.
func Erfc(x float64) *big.Float {
	const out = 160
	if x == 0 {
		return nf(out).SetInt64(1)
	}
	if math.IsInf(x, 1) {
		return nf(out)
	}
	if math.IsInf(x, -1) {
		return nf(out).SetInt64(2)
	}
	ax := math.Abs(x)
	// largest term ~ e^{x^2}; result ~ e^{-x^2}: need ~ 2*x^2*log2(e) extra bits.
	extra := uint(2*ax*ax*1.4427) + 64
	wp := out + extra + 64
	bx := nf(wp).SetFloat64(ax)
	x2 := nf(wp).Mul(bx, bx)
	// erf(x) = 2/sqrt(pi) * sum_{n>=0} (-1)^n x^(2n+1) / (n! (2n+1))
	sum := nf(wp).Set(bx)
	pow := nf(wp).Set(bx) // x^(2n+1)/n!
	for n := int64(1); ; n++ {
		pow.Mul(pow, x2)
		pow.Quo(pow, nf(wp).SetInt64(n))
		term := nf(wp).Quo(pow, nf(wp).SetInt64(2*n+1))
		if n%2 == 1 {
			sum.Sub(sum, term)
		} else {
			sum.Add(sum, term)
		}
		if float64(n) > ax*ax && term.MantExp(nil) < -int(wp)-8 {
			break
		}
	}
	sum.Mul(sum, nf(wp).SetInt64(2))
	sum.Quo(sum, Sqrt(Pi(wp)))
	res := nf(wp).Sub(nf(wp).SetInt64(1), sum) // erfc(|x|)
	if x < 0 {
		res.Sub(nf(wp).SetInt64(2), res)
	}
	return nf(out).Set(res)
}

// NormCDF returns Phi(z) for a float64 z as a big.Float.
func NormCDF(z float64) *big.Float {
	// Phi(z) = erfc(-z/sqrt2)/2; do the division by sqrt(2) in high precision
	// by using erfc's series on the exact argument: here we accept the
	// float64 rounding of z/sqrt2 only through a first-order correction.
	return NormCDFBig(nf(256).SetFloat64(z))
}

// NormCDFBig evaluates Phi at a big.Float argument (|z| <= 60) with ~100 good bits relative.
func NormCDFBig(z *big.Float) *big.Float {
	const out = 160
	zf, _ := z.Float64()
	az := math.Abs(zf)
	if az > 60 {
		// below 1e-780 in the lower tail: return the limit (absolute error < 1e-700)
		if zf > 0 {
			return nf(out).SetInt64(1)
		}
		return nf(out)
	}
	extra := uint(az*az*1.4427) + 64
	wp := out + extra + 96
	t := nf(wp).Set(z)
	t.Quo(t, Sqrt(nf(wp).SetInt64(2)))
	t.Neg(t) // erfc argument
	// series for erf(|t|)
	neg := t.Sign() < 0
	at := nf(wp).Abs(t)
	if at.Sign() == 0 {
		return nf(out).SetFloat64(0.5)
	}
	x2 := nf(wp).Mul(at, at)
	x2f, _ := x2.Float64()
	sum := nf(wp).Set(at)
	pow := nf(wp).Set(at)
	for n := int64(1); ; n++ {
		pow.Mul(pow, x2)
		pow.Quo(pow, nf(wp).SetInt64(n))
		term := nf(wp).Quo(pow, nf(wp).SetInt64(2*n+1))
		if n%2 == 1 {
			sum.Sub(sum, term)
		} else {
			sum.Add(sum, term)
		}
		if float64(n) > x2f && term.MantExp(nil) < -int(wp)-8 {
			break
		}
	}
	sum.Mul(sum, nf(wp).SetInt64(2))
	sum.Quo(sum, Sqrt(Pi(wp)))
	res := nf(wp).Sub(nf(wp).SetInt64(1), sum) // erfc(|t|)
	if neg {
		res.Sub(nf(wp).SetInt64(2), res)
	}
	res.Quo(res, nf(wp).SetInt64(2))
	return nf(out).Set(res)
}

// ToF rounds a big.Float to float64.
func ToF(x *big.Float) float64 {
	f, _ := x.Float64()
	return f
}

// TCDFInt returns the Student-t CDF for integer degrees of freedom nu >= 1
// from the finite closed form (Abramowitz & Stegun 26.7.3/26.7.4).
func TCDFInt(t float64, nu int) *big.Float {
	const prec = 320
	if t == 0 {
		return nf(prec).SetFloat64(0.5)
	}
	bt := nf(prec).SetFloat64(math.Abs(t))
	bnu := nf(prec).SetInt64(int64(nu))
	den := nf(prec).Mul(bt, bt)
	den.Add(den, bnu) // nu + t^2
	sqden := Sqrt(den)
	sin := nf(prec).Quo(bt, sqden)
	cos2 := nf(prec).Quo(bnu, den)
	cos := nf(prec).Quo(Sqrt(bnu), sqden)
	A := nf(prec)
	if nu%2 == 1 {
		theta := Atan(nf(prec).Quo(bt, Sqrt(bnu)))
		A.Set(theta)
		if nu > 1 {
			// sin * [cos + 2/3 cos^3 + ... + (2*4*...*(nu-3))/(1*3*...*(nu-2)) cos^(nu-2)]
			term := nf(prec).Set(cos)
			s := nf(prec).Set(cos)
			for j := 3; j <= nu-2; j += 2 {
				term.Mul(term, cos2)
				term.Mul(term, nf(prec).SetInt64(int64(j-1)))
				term.Quo(term, nf(prec).SetInt64(int64(j)))
				s.Add(s, term)
			}
			s.Mul(s, sin)
			A.Add(A, s)
		}
		A.Mul(A, nf(prec).SetInt64(2))
		A.Quo(A, Pi(prec))
	} else {
		// sin * [1 + 1/2 cos^2 + (1*3)/(2*4) cos^4 + ... + (1*3*...*(nu-3))/(2*4*...*(nu-2)) cos^(nu-2)]
		term := nf(prec).SetInt64(1)
		s := nf(prec).SetInt64(1)
		for j := 2; j <= nu-2; j += 2 {
			term.Mul(term, cos2)
			term.Mul(term, nf(prec).SetInt64(int64(j-1)))
			term.Quo(term, nf(prec).SetInt64(int64(j)))
			s.Add(s, term)
		}
		A.Mul(s, sin)
	}
	// CDF = (1 + A)/2 for t > 0, (1 - A)/2 for t < 0
	res := nf(prec).SetInt64(1)
	if t > 0 {
		res.Add(res, A)
	} else {
		res.Sub(res, A)
	}
	res.Quo(res, nf(prec).SetInt64(2))
	return res
}

// BetaIncInt returns the regularized incomplete beta function for integer
// a, b >= 1 and 0 <= x <= 1 from the finite binomial sum
// I_x(a,b) = sum_{j=a}^{a+b-1} C(a+b-1, j) x^j (1-x)^(a+b-1-j).
func BetaIncInt(x float64, a, b int) *big.Float {
	const prec = 640
	n := a + b - 1
	bx := nf(prec).SetFloat64(x)
	bq := nf(prec).Sub(nf(prec).SetInt64(1), bx)
	xp := make([]*big.Float, n+1)
	qp := make([]*big.Float, n+1)
	xp[0], qp[0] = nf(prec).SetInt64(1), nf(prec).SetInt64(1)
	for i := 1; i <= n; i++ {
		xp[i] = nf(prec).Mul(xp[i-1], bx)
		qp[i] = nf(prec).Mul(qp[i-1], bq)
	}
	sum := nf(prec)
	bin := new(big.Int)
	for j := a; j <= n; j++ {
		bin.Binomial(int64(n), int64(j))
		t := nf(prec).SetInt(bin)
		t.Mul(t, xp[j])
		t.Mul(t, qp[n-j])
		sum.Add(sum, t)
	}
	return sum
}

// GammaIncInt returns the regularized lower incomplete gamma function P(a, x)
// for integer a >= 1: 1 - e^{-x} sum_{k<a} x^k/k!. The complement Q is
// returned as the second value (accurate relatively, no cancellation).
func GammaIncInt(a int, x float64) (p, q *big.Float) {
	const prec = 640
	bx := nf(prec).SetFloat64(x)
	sum := nf(prec).SetInt64(1)
	term := nf(prec).SetInt64(1)
	for k := 1; k < a; k++ {
		term.Mul(term, bx)
		term.Quo(term, nf(prec).SetInt64(int64(k)))
		sum.Add(sum, term)
	}
	q = nf(prec).Mul(sum, Exp(nf(prec).Neg(bx)))
	if x >= float64(a)+1 {
		// P is not small: 1 - Q loses nothing.
		return nf(prec).Sub(nf(prec).SetInt64(1), q), q
	}
	// P = e^{-x} * sum_{k>=a} x^k/k!, summed directly to avoid cancellation
	// when x is small (x < a+1, so the terms decrease from the start).
	tail := nf(prec)
	term.Mul(term, bx)
	term.Quo(term, nf(prec).SetInt64(int64(a))) // x^a/a!
	for k := a; ; k++ {
		tail.Add(tail, term)
		term.Mul(term, bx)
		term.Quo(term, nf(prec).SetInt64(int64(k+1)))
		if term.Sign() == 0 || term.MantExp(nil) < tail.MantExp(nil)-int(prec) {
			break
		}
	}
	p = nf(prec).Mul(tail, Exp(nf(prec).Neg(bx)))
	return p, q
}

// NormQuantile returns z with Phi(z) = p for a float64 0 < p < 1, to ~120 bits.
func NormQuantile(p float64) *big.Float {
	const prec = 256
	if !(p > 0 && p < 1) {
		panic("ref.NormQuantile: p outside (0,1)")
	}
	target := nf(prec).SetFloat64(p)
	// float64 starting point by bisection on erfc (monotone, no library code involved)
	lo, hi := -40.0, 40.0
	for i := 0; i < 120; i++ {
		mid := (lo + hi) / 2
		if 0.5*math.Erfc(-mid/math.Sqrt2) < p {
			lo = mid
		} else {
			hi = mid
		}
	}
	z := nf(prec).SetFloat64((lo + hi) / 2)
	sqrt2pi := Sqrt(nf(prec).Mul(Pi(prec), nf(prec).SetInt64(2)))
	for it := 0; it < 8; it++ {
		F := NormCDFBig(z)
		d := nf(prec).Sub(nf(prec).Set(F), target)
		z2 := nf(prec).Mul(z, z)
		z2.Quo(z2, nf(prec).SetInt64(-2))
		pdf := Exp(z2)
		pdf.Quo(pdf, sqrt2pi)
		d.Quo(d, pdf)
		z.Sub(z, d)
		if d.Sign() == 0 || d.MantExp(nil) < z.MantExp(nil)-110 {
			break
		}
	}
	return z
}

// GaussLegendre returns the nodes and weights of the n-point rule on [-1,1].
func GaussLegendre(n int) (xs, ws []float64) {
	xs = make([]float64, n)
	ws = make([]float64, n)
	for i := 0; i < (n+1)/2; i++ {
		x := math.Cos(math.Pi * (float64(i) + 0.75) / (float64(n) + 0.5))
		var pp float64
		for it := 0; it < 100; it++ {
			p1, p2 := 1.0, 0.0
			for j := 0; j < n; j++ {
				p3 := p2
				p2 = p1
				p1 = ((2*float64(j)+1)*x*p2 - float64(j)*p3) / float64(j+1)
			}
			pp = float64(n) * (x*p1 - p2) / (x*x - 1)
			dx := p1 / pp
			x -= dx
			if math.Abs(dx) < 1e-16 {
				break
			}
		}
		xs[i], xs[n-1-i] = -x, x
		w := 2 / ((1 - x*x) * pp * pp)
		ws[i], ws[n-1-i] = w, w
	}
	return
}

var gl20x, gl20w = GaussLegendre(20)

// Integrate20 integrates f over [a,b] with the 20-point Gauss-Legendre rule.
func Integrate20(f func(float64) float64, a, b float64) float64 {
	h, m := (b-a)/2, (a+b)/2
	s := 0.0
	for i, x := range gl20x {
		s += gl20w[i] * f(m+h*x)
	}
	return s * h
}

// TCDFSeries evaluates the Student-t CDF for x^2 <= V/4 from the Maclaurin
// series  1/2 + x * Gamma((V+1)/2)/(sqrt(pi V) Gamma(V/2)) * 2F1(1/2,(V+1)/2;3/2;-x^2/V),
// which has no cancellation near x = 0 (float64; relative accuracy ~1e-14 of CDF-1/2).
func TCDFSeries(x, v float64) float64 {
	if x*x > v/4 {
		panic("ref.TCDFSeries: outside the region of fast convergence")
	}
	lg1, _ := math.Lgamma((v + 1) / 2)
	lg2, _ := math.Lgamma(v / 2)
	c := math.Exp(lg1-lg2) / math.Sqrt(math.Pi*v)
	z := -x * x / v
	sum, term := 1.0, 1.0
	a, b := 0.5, (v+1)/2
	for n := 0.0; n < 500; n++ {
		term *= (a + n) * (b + n) / ((1.5 + n) * (n + 1)) * z
		sum += term
		if math.Abs(term) < 1e-18*math.Abs(sum) {
			break
		}
	}
	return 0.5 + x*c*sum
}
