package ref

import (
	"math"
	"testing"

	"gonum.org/v1/gonum/mathext"
	"gonum.org/v1/gonum/stat/distuv"
)

func rel(a, b float64) float64 {
	if a == b {
		return 0
	}
	return math.Abs(a-b) / math.Max(math.Abs(a), math.Abs(b))
}

func TestElementary(t *testing.T) {
	for _, x := range []float64{-700, -30.5, -1, -1e-9, 0, 1e-9, 0.5, 1, 2.75, 30, 700} {
		if r := rel(ToF(Exp(BF(x))), math.Exp(x)); r > 1e-15 {
			t.Errorf("exp(%v) rel %g", x, r)
		}
	}
	for _, x := range []float64{1e-300, 1e-9, 0.5, 0.999999, 1, 1.000001, 2, 10, 1e9, 1e300} {
		got, want := ToF(Log(BF(x))), math.Log(x)
		if math.Abs(got-want) > 1e-15*math.Max(1, math.Abs(want)) {
			t.Errorf("log(%v) = %v want %v", x, got, want)
		}
	}
	for _, x := range []float64{-1e6, -3, -1, -0.1, 0, 1e-5, 0.3, 1, 7, 1e9} {
		if r := math.Abs(ToF(Atan(BF(x))) - math.Atan(x)); r > 1e-15 {
			t.Errorf("atan(%v) err %g", x, r)
		}
	}
	if math.Abs(ToF(Pi(256))-math.Pi) > 0 {
		t.Errorf("pi")
	}
	for _, x := range []float64{-6, -1, -1e-8, 0, 1e-8, 0.5, 1, 3, 6, 10, 26, 38} {
		if r := rel(ToF(Erfc(x)), math.Erfc(x)); r > 1e-14 {
			t.Errorf("erfc(%v) = %v want %v rel %g", x, ToF(Erfc(x)), math.Erfc(x), r)
		}
	}
	for _, z := range []float64{-38, -8, -1, 0, 0.3, 2, 8} {
		want := 0.5 * math.Erfc(-z/math.Sqrt2)
		if r := rel(ToF(NormCDF(z)), want); r > 1e-13 {
			t.Errorf("Phi(%v) = %v want %v", z, ToF(NormCDF(z)), want)
		}
	}
}

func TestClosedForms(t *testing.T) {
	for _, nu := range []int{1, 2, 3, 4, 5, 10, 31, 100} {
		d := distuv.StudentsT{Mu: 0, Sigma: 1, Nu: float64(nu)}
		for _, x := range []float64{-50, -3, -0.5, 0, 0.1, 1, 2.5, 40} {
			got, want := ToF(TCDFInt(x, nu)), d.CDF(x)
			if math.Abs(got-want) > 1e-12 {
				t.Errorf("t cdf nu=%d x=%v: %v vs gonum %v", nu, x, got, want)
			}
		}
	}
	for _, ab := range [][2]int{{1, 1}, {2, 3}, {5, 1}, {10, 20}, {100, 150}, {300, 300}} {
		for _, x := range []float64{0, 1e-8, 0.1, 0.4, 0.5, 0.9, 1} {
			got, want := ToF(BetaIncInt(x, ab[0], ab[1])), mathext.RegIncBeta(float64(ab[0]), float64(ab[1]), x)
			if math.Abs(got-want) > 1e-11 {
				t.Errorf("betainc(%v;%v) = %v vs gonum %v", x, ab, got, want)
			}
		}
	}
	for _, a := range []int{1, 2, 5, 30, 300} {
		for _, x := range []float64{0, 1e-10, 0.5, 1, float64(a), float64(a) + 1, 3 * float64(a), 1e3} {
			p, q := GammaIncInt(a, x)
			if math.Abs(ToF(p)-mathext.GammaIncReg(float64(a), x)) > 1e-12 || math.Abs(ToF(q)-mathext.GammaIncRegComp(float64(a), x)) > 1e-12 {
				t.Errorf("gammainc(%d,%v) = %v,%v vs gonum %v,%v", a, x, ToF(p), ToF(q), mathext.GammaIncReg(float64(a), x), mathext.GammaIncRegComp(float64(a), x))
			}
		}
	}
}

func TestQuantileAndGL(t *testing.T) {
	for _, p := range []float64{1e-300, 1e-20, 0.02425, 0.3, 0.5, 0.9, 1 - 1e-12} {
		z := NormQuantile(p)
		back := ToF(NormCDFBig(z))
		if rel(back, p) > 1e-15 {
			t.Errorf("quantile(%v): Phi(z)=%v", p, back)
		}
	}
	got := Integrate20(func(x float64) float64 { return math.Exp(-x * x / 2) }, -1, 1)
	want := math.Sqrt(2*math.Pi) * math.Erf(1/math.Sqrt2)
	if math.Abs(got-want) > 1e-14 {
		t.Errorf("GL20: %v vs %v", got, want)
	}
}

func TestTSeries(t *testing.T) {
	for _, nu := range []int{1, 2, 3, 10, 39, 1000} {
		for _, x := range []float64{-0.4, -1e-3, -1e-9, 1e-12, 1e-7, 1e-3, 0.3, 0.49} {
			if x*x > float64(nu)/4 {
				continue
			}
			got, want := TCDFSeries(x, float64(nu)), ToF(TCDFInt(x, nu))
			if math.Abs(got-want) > 1e-12 {
				t.Errorf("nu=%d x=%v: series %v closed form %v", nu, x, got, want)
			}
		}
	}
}
