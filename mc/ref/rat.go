// Package ref holds the boring reference models: exact rational and
// high-precision evaluations written from the mathematical definitions.
package ref

import (
	"math"
	"math/big"
)

// Eps is the float64 unit round-off 2^-53.
const Eps = 1.0 / (1 << 53)

// R returns the exact rational value of a finite float64.
func R(x float64) *big.Rat {
	r := new(big.Rat)
	if r.SetFloat64(x) == nil {
		panic("ref.R: non-finite float")
	}
	return r
}

// RI returns n as a rational.
func RI(n int64) *big.Rat { return new(big.Rat).SetInt64(n) }

// F returns the float64 nearest to r.
func F(r *big.Rat) float64 {
	f, _ := r.Float64()
	return f
}

// AbsDiff returns |got - want| computed exactly and rounded once.
func AbsDiff(got float64, want *big.Rat) float64 {
	if math.IsNaN(got) || math.IsInf(got, 0) {
		return math.Inf(1)
	}
	d := new(big.Rat).Sub(R(got), want)
	d.Abs(d)
	return F(d)
}

// Add, Sub, Mul, Quo return fresh results.
func Add(a, b *big.Rat) *big.Rat { return new(big.Rat).Add(a, b) }
func Sub(a, b *big.Rat) *big.Rat { return new(big.Rat).Sub(a, b) }
func Mul(a, b *big.Rat) *big.Rat { return new(big.Rat).Mul(a, b) }
func Quo(a, b *big.Rat) *big.Rat { return new(big.Rat).Quo(a, b) }

// Moments are the exact batch statistics of a finite multiset.
type Moments struct {
	N             int
	Total         *big.Rat
	Mean          *big.Rat // Total/N
	MeanSq        *big.Rat // sum x^2 / N
	Var           *big.Rat // (n-1)-denominator variance; nil when N < 2
	VarPop        *big.Rat // population variance
	Min, Max      float64
	MaxAbs        float64
	SumAbs        float64
	SumSq         *big.Rat
	CondVar       float64 // sqrt(1 + mean^2/varpop); +Inf when varpop == 0
	MeanF, TotalF float64
	VarF, RMSF    float64
}

// ExactMoments computes Moments for xs (all finite).
func ExactMoments(xs []float64) *Moments {
	m := &Moments{N: len(xs), Total: new(big.Rat), SumSq: new(big.Rat), Min: math.Inf(1), Max: math.Inf(-1)}
	for _, x := range xs {
		rx := R(x)
		m.Total.Add(m.Total, rx)
		m.SumSq.Add(m.SumSq, Mul(rx, rx))
		if x < m.Min {
			m.Min = x
		}
		if x > m.Max {
			m.Max = x
		}
		if a := math.Abs(x); a > m.MaxAbs {
			m.MaxAbs = a
		}
		m.SumAbs += math.Abs(x)
	}
	m.TotalF = F(m.Total)
	if m.N == 0 {
		return m
	}
	n := RI(int64(m.N))
	m.Mean = Quo(m.Total, n)
	m.MeanSq = Quo(m.SumSq, n)
	m.VarPop = Sub(m.MeanSq, Mul(m.Mean, m.Mean))
	m.MeanF = F(m.Mean)
	m.RMSF = SqrtRat(m.MeanSq)
	if m.N >= 2 {
		m.Var = Quo(Mul(m.VarPop, n), RI(int64(m.N-1)))
		m.VarF = F(m.Var)
	}
	if m.VarPop.Sign() == 0 {
		m.CondVar = math.Inf(1)
	} else {
		m.CondVar = math.Sqrt(1 + F(Quo(Mul(m.Mean, m.Mean), m.VarPop)))
	}
	return m
}

// SqrtRat returns sqrt(r) correctly rounded to within 1 ulp (r >= 0).
func SqrtRat(r *big.Rat) float64 {
	if r.Sign() == 0 {
		return 0
	}
	f := new(big.Float).SetPrec(300).SetRat(r)
	f.Sqrt(f)
	v, _ := f.Float64()
	return v
}

// BF makes a 300-bit big.Float.
func BF(x float64) *big.Float { return new(big.Float).SetPrec(Prec).SetFloat64(x) }

// Prec is the working precision of the big.Float references.
const Prec = 320
