package ref

import (
	"math/big"
)

// UNull is the exact null distribution of the Mann-Whitney U statistic for
// sample sizes (N1, N2) and tie vector T: Count[v] is the number of size-N1
// subsets of the ranked pool whose statistic is U = v/2.
type UNull struct {
	N1, N2 int
	T      []int
	Count  []*big.Int // indexed by 2U, 0..2*N1*N2
	Total  *big.Int   // C(N1+N2, N1)

	cumLE []float64 // Pr[2U' <= v]
	cumGE []float64 // Pr[2U' >= v]
	pmf   []float64
}

// UCounts computes the null distribution by dynamic programming over rank
// classes: an allocation r (r[k] values of class k go to sample 1) has weight
// prod C(t[k], r[k]) and statistic
//
//	2U = sum_k r[k] * (2 * #sample-2 values in lower classes + (t[k]-r[k])).
//
// T == nil means no ties (all ones).
func UCounts(n1, n2 int, T []int) *UNull {
	N := n1 + n2
	if T == nil {
		T = make([]int, N)
		for i := range T {
			T[i] = 1
		}
	}
	maxV := 2 * n1 * n2
	// cur[used] = counts by 2U, for the classes processed so far.
	cur := make([][]*big.Int, n1+1)
	cur[0] = make([]*big.Int, maxV+1)
	cur[0][0] = big.NewInt(1)
	seen := 0 // pool values in the classes processed so far
	binom := new(big.Int)
	tmp := new(big.Int)
	for _, t := range T {
		next := make([][]*big.Int, n1+1)
		for used := 0; used <= n1 && used <= seen; used++ {
			row := cur[used]
			if row == nil {
				continue
			}
			below2 := seen - used // sample-2 values strictly below this class
			for r := 0; r <= t && used+r <= n1; r++ {
				if (t-r)+below2 > n2 {
					continue
				}
				binom.Binomial(int64(t), int64(r))
				dv := r * (2*below2 + (t - r))
				nrow := next[used+r]
				if nrow == nil {
					nrow = make([]*big.Int, maxV+1)
					next[used+r] = nrow
				}
				for v, c := range row {
					if c == nil {
						continue
					}
					tmp.Mul(c, binom)
					if nrow[v+dv] == nil {
						nrow[v+dv] = new(big.Int)
					}
					nrow[v+dv].Add(nrow[v+dv], tmp)
				}
			}
		}
		cur = next
		seen += t
	}
	u := &UNull{N1: n1, N2: n2, T: append([]int{}, T...), Count: make([]*big.Int, maxV+1)}
	u.Total = new(big.Int).Binomial(int64(N), int64(n1))
	final := cur[n1]
	sum := new(big.Int)
	for v := range u.Count {
		if final != nil && final[v] != nil {
			u.Count[v] = final[v]
		} else {
			u.Count[v] = new(big.Int)
		}
		sum.Add(sum, u.Count[v])
	}
	if sum.Cmp(u.Total) != 0 {
		panic("ref.UCounts: counts do not sum to C(N, n1)")
	}
	return u
}

func (u *UNull) prep() {
	if u.cumLE != nil {
		return
	}
	n := len(u.Count)
	u.cumLE = make([]float64, n)
	u.cumGE = make([]float64, n)
	u.pmf = make([]float64, n)
	acc := new(big.Int)
	ratio := func(a *big.Int) float64 {
		f, _ := new(big.Rat).SetFrac(a, u.Total).Float64()
		return f
	}
	for v := 0; v < n; v++ {
		acc.Add(acc, u.Count[v])
		u.cumLE[v] = ratio(acc)
		u.pmf[v] = ratio(u.Count[v])
	}
	acc.SetInt64(0)
	for v := n - 1; v >= 0; v-- {
		acc.Add(acc, u.Count[v])
		u.cumGE[v] = ratio(acc)
	}
}

// LE returns Pr[2U' <= v] (v may be out of range).
func (u *UNull) LE(v int) float64 {
	u.prep()
	if v < 0 {
		return 0
	}
	if v >= len(u.cumLE) {
		return 1
	}
	return u.cumLE[v]
}

// GE returns Pr[2U' >= v].
func (u *UNull) GE(v int) float64 {
	u.prep()
	if v <= 0 {
		return 1
	}
	if v >= len(u.cumGE) {
		return 0
	}
	return u.cumGE[v]
}

// PMF returns Pr[2U' == v].
func (u *UNull) PMF(v int) float64 {
	u.prep()
	if v < 0 || v >= len(u.pmf) {
		return 0
	}
	return u.pmf[v]
}

// Attainable reports whether some subset has statistic v/2.
func (u *UNull) Attainable(v int) bool {
	return v >= 0 && v < len(u.Count) && u.Count[v].Sign() > 0
}

// USubsets is the definitional enumeration: every size-n1 subset of the
// labelled pool (ranks given by T), U by literal pair counting. It returns the
// counts indexed by 2U. Used to validate UCounts (model-vs-definition).
func USubsets(n1, n2 int, T []int) []int64 {
	N := n1 + n2
	if T == nil {
		T = make([]int, N)
		for i := range T {
			T[i] = 1
		}
	}
	rank := make([]int, 0, N)
	for k, t := range T {
		for i := 0; i < t; i++ {
			rank = append(rank, k)
		}
	}
	counts := make([]int64, 2*n1*n2+1)
	for mask := uint(0); mask < 1<<uint(N); mask++ {
		if popcount(mask) != n1 {
			continue
		}
		twoU := 0
		for i := 0; i < N; i++ {
			if mask>>uint(i)&1 == 0 {
				continue
			}
			for j := 0; j < N; j++ {
				if mask>>uint(j)&1 != 0 {
					continue
				}
				switch {
				case rank[i] > rank[j]:
					twoU += 2
				case rank[i] == rank[j]:
					twoU++
				}
			}
		}
		counts[twoU]++
	}
	return counts
}

func popcount(x uint) int {
	n := 0
	for ; x != 0; x &= x - 1 {
		n++
	}
	return n
}

// PairU returns 2U by the pair-count definition: twice the number of pairs
// (a in x1, b in x2) with a > b plus the number with a == b.
func PairU(x1, x2 []float64) int {
	twoU := 0
	for _, a := range x1 {
		for _, b := range x2 {
			switch {
			case a > b:
				twoU += 2
			case a == b:
				twoU++
			}
		}
	}
	return twoU
}
